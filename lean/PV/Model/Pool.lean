/-
util/pool.hh + util/pool.cc — `util::Pool`, the bump allocator behind cache's answer store, the strings of
`MutableVocab` (train_case / apply_case / truecase), substitute and idf.

Addresses are (page number, offset): page number j ≥ 1 is the j-th block obtained from malloc (its size is
`pages[j-1]`), page number 0 is the NULL region the pool starts in (`current_ = current_end_ = NULL`).
`cur` is `current_ - <base of the last page>`, `current_end_ - base` is the size of the last page.
Pointer comparisons in the code (`current_ > current_end_`) are comparisons of offsets in the last page.
Core Lean only (linked into the native driver).
-/
namespace PV.Pool

structure Addr where
  page : Nat
  off  : Nat
deriving Repr, DecidableEq

structure Pool where
  pages : List Nat      -- malloc'ed amounts, oldest first  (free_list_)
  cur   : Nat           -- current_ relative to the last page
deriving Repr, DecidableEq

def init : Pool := ⟨[], 0⟩

/-- `current_end_` relative to the last page. -/
def Pool.endOff (p : Pool) : Nat := p.pages.getLast?.getD 0

/-- `std::max(static_cast<size_t>(32) << free_list_.size(), size)` (as mathematics: the shift count stays
below 64 as long as the pages fit an address space, theorem `shift_count_small`). -/
def amount (npages size : Nat) : Nat := max (32 <<< npages) size

/-- `Pool::More(size)`: a new page, the allocation at its start. -/
def more (p : Pool) (size : Nat) : Pool × Addr :=
  ({ pages := p.pages ++ [amount p.pages.length size], cur := size }, ⟨p.pages.length + 1, 0⟩)

/-- `Pool::Allocate(size)`. -/
def allocate (p : Pool) (size : Nat) : Pool × Addr :=
  if p.cur + size > p.endOff then more p size
  else ({ p with cur := p.cur + size }, ⟨p.pages.length, p.cur⟩)

/-- the `memcpy` of `Continue` when it has to move. -/
structure Copy where
  src : Addr
  dst : Addr
  len : Nat
deriving Repr, DecidableEq

/-- `Pool::Continue(base, additional)`.  `none` = the caller broke the contract (base is not in the current
page at or below `current_`, or the allocation would shrink below its base). -/
def continue_ (p : Pool) (base : Addr) (additional : Int) : Option (Pool × Addr × Option Copy) :=
  if base.page ≠ p.pages.length ∨ base.off > p.cur ∨ (p.cur : Int) + additional < (base.off : Int) then none
  else
    let cur' := ((p.cur : Int) + additional).toNat
    if cur' > p.endOff then
      let newTotal := cur' - base.off
      let r := more p newTotal
      some (r.1, r.2, some ⟨base, r.2, ((newTotal : Int) - additional).toNat⟩)
    else some ({ p with cur := cur' }, base, none)

/-! ### histories: what the callers do -/

inductive Op where
  | alloc (size : Nat)
  | cont (additional : Int)      -- Continue on the most recent allocation
deriving Repr, DecidableEq

/-- A live allocation: where it is and how long. -/
structure Live where
  addr : Addr
  size : Nat
deriving Repr, DecidableEq

structure Hist where
  pool   : Pool
  live   : List Live          -- oldest first; the last one is the "most recent allocation"
  copies : List Copy          -- every memcpy Continue has made, oldest first
deriving Repr, DecidableEq

def Hist.init : Hist := ⟨PV.Pool.init, [], []⟩

/-- One caller step; `none` when the contract of Continue is broken (no allocation yet, or shrinking below 0). -/
def Hist.step (h : Hist) : Op → Option Hist
  | .alloc n =>
    let r := allocate h.pool n
    some { h with pool := r.1, live := h.live ++ [⟨r.2, n⟩] }
  | .cont d =>
    match h.live.getLast? with
    | none => none
    | some l =>
      if (l.size : Int) + d < 0 then none else
      match continue_ h.pool l.addr d with
      | none => none
      | some (p', a, c) =>
        some { pool := p', live := h.live.dropLast ++ [⟨a, ((l.size : Int) + d).toNat⟩],
               copies := h.copies ++ c.toList }

def Hist.run (h : Hist) : List Op → Option Hist
  | [] => some h
  | o :: os => match h.step o with
    | none => none
    | some h' => h'.run os

/-- size of page number `j` (1-based; 0 for the NULL region and for pages that do not exist) -/
def Pool.pageSize (p : Pool) (j : Nat) : Nat := if j = 0 then 0 else p.pages.getD (j - 1) 0

/-- a range lies inside one page -/
def inPage (p : Pool) (a : Addr) (n : Nat) : Prop := a.page ≤ p.pages.length ∧ a.off + n ≤ p.pageSize a.page

/-- two ranges share no byte -/
def disjoint (a : Live) (b : Live) : Prop :=
  a.addr.page ≠ b.addr.page ∨ a.addr.off + a.size ≤ b.addr.off ∨ b.addr.off + b.size ≤ a.addr.off

end PV.Pool
