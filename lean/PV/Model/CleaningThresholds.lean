/-
The three threshold tests at the end of `SimpleCleaningFilter::operator()` for option values that are exactly
representable (0, 1, 0.5, 0.25, ... given as num/den): with fewer than 2^24 characters every operand is an integer
the float format holds exactly, products by a power of two are exact and the division of `--min-scripts` is
compared against a representable bound, so the float comparisons agree with these integer comparisons.  This is
the instance of `Params.thresholds` the correspondence check uses; the general float semantics is not modelled.
-/
import PV.Model.Cleaning

namespace PV.Cleaning

structure Ratio where
  num : Nat
  den : Nat
  deriving Repr, DecidableEq

structure Thresholds where
  maxCommonInherited : Ratio
  minPunct : Ratio
  minPunctSample : Nat
  scripts : List Nat            -- sorted unique UScriptCode values of --scripts
  minScripts : Ratio
  deriving Repr, DecidableEq

def uscriptCommon : Nat := 0
def uscriptInherited : Nat := 1

def ratThresholds (t : Thresholds) (scripts : List Nat) (punct spaces : Nat) : Bool :=
  let characters := scripts.length
  let c01 := scripts.count uscriptCommon + scripts.count uscriptInherited
  -- `counts[INHERITED] + counts[COMMON] - spaces` is unsigned: it wraps to a huge value when there are more spaces
  if c01 < spaces then false else
  let ci := c01 - spaces
  if ci * t.maxCommonInherited.den > t.maxCommonInherited.num * characters then false else
  if characters > t.minPunctSample && punct * t.minPunct.den < t.minPunct.num * characters then false else
  if t.scripts.isEmpty then true else
  let after := characters - c01
  let inScript := (t.scripts.map (fun s => scripts.count s)).sum
  -- 0 / 0 is NaN and `NaN < x` is false: a field of common/inherited characters only is not rejected here
  if after != 0 && inScript * t.minScripts.den < t.minScripts.num * after then false else true

end PV.Cleaning
