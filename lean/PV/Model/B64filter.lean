import PV.Model.Base64
import PV.Spec.Records
import PV.Gen.Consts
/-
Model of preprocess/b64filter_main.cc : the feeder (decode, force a final newline, count
lines) and the reader (collect `line_cnt` lines from the child, re-insert newlines, encode).
The child is any function from the sequence of lines it is fed to the sequence of lines it
answers; the pipes/threads are C05's business.  `none` = the program terminates abnormally
(base64 error, child produced too few or too many lines).
-/
namespace PV.B64filter
open PV.Spec.Records

/-- `Document{line_cnt, has_trailing_newline}` plus the text sent to the child, as lines. -/
structure Desc where
  lines : List (List UInt8)     -- the document's lines as fed to the child (each followed by '\n')
  trailing : Bool               -- has_trailing_newline
  deriving Repr, DecidableEq

/-- feeder, one document: `has_trailing_newline = !doc.empty() && doc.back() == '\n'`,
    append a newline if missing, `line_cnt = count(doc, '\n')`. -/
def describe (doc : List UInt8) : Desc :=
  let trailing := doc.getLast? == some 10
  let doc' := if trailing then doc else doc ++ [10]
  { lines := splitRecords 10 false doc', trailing := trailing }

def stripCr (r : List UInt8) : List UInt8 :=
  if PV.Gen.b64filterCollectStripCr && r.getLast? == some 13 then r.dropLast else r

/-- reader, one document: the child's `n` answer lines joined by '\n', plus a final '\n' iff
    the original had one. -/
def reassemble (answers : List (List UInt8)) (trailing : Bool) : List UInt8 :=
  match answers with
  | [] => []
  | a :: rest => a ++ rest.flatMap (fun l => 10 :: l) ++ (if trailing then [10] else [])

/-- reader loop over the descriptors with the child's remaining answer lines. -/
def collect : List Desc → List (List UInt8) → Option (List (List UInt8))
  | [], [] => some []
  | [], _ :: _ => none                 -- "sub-process is producing more output than it was given input"
  | d :: ds, answers =>
    let n := d.lines.length
    if answers.length < n then none    -- "Sub-process stopped producing while expecting more lines"
    else
      match collect ds (answers.drop n) with
      | none => none
      | some rest => some (PV.Base64.encode (reassemble ((answers.take n).map stripCr) d.trailing) :: rest)

def decodeAllDocs : List (List UInt8) → Option (List (List UInt8))
  | [] => some []
  | l :: ls =>
    match PV.Base64.decode l, decodeAllDocs ls with
    | .ok d, some rest => some (d :: rest)
    | _, _ => none

/-- b64filter on its input lines (one base64 document per line) with child `child`;
    result: the output lines. -/
def run (child : List (List UInt8) → List (List UInt8)) (input : List (List UInt8)) : Option (List (List UInt8)) :=
  match decodeAllDocs input with
  | none => none
  | some docs =>
    let descs := docs.map describe
    collect descs (child (descs.flatMap (·.lines)))

end PV.B64filter
