import PV.Model.Tools
import PV.Model.Base64
import PV.Spec.Records
/-
More of the small tools: base64_number_main.cc and vocab_main.cc.
-/
namespace PV.Tools2
open PV.Tools

/-- maximal runs of bytes that do not satisfy `isDelim` (`ReadDelimited`: skip delimiters, read to the next one;
    `TokenIter<…, SkipEmpty = true>`: split at the delimiter and drop the empty tokens). -/
def tokensGo (isDelim : UInt8 → Bool) : List UInt8 → List UInt8 → List (List UInt8)
  | [], cur => if cur = [] then [] else [cur.reverse]
  | b :: r, cur =>
    if isDelim b then (if cur = [] then tokensGo isDelim r [] else cur.reverse :: tokensGo isDelim r [])
    else tokensGo isDelim r (b :: cur)

def tokens (isDelim : UInt8 → Bool) (bs : List UInt8) : List (List UInt8) := tokensGo isDelim bs []

/-! ### base64_number: every non-empty line of document i (tabs turned into spaces), followed by TAB and i -/

/-- the decimal digits of `n` (what `operator<<(uint64_t)` prints) -/
def decimal (n : Nat) : List UInt8 := (Nat.toDigits 10 n).map (fun c => UInt8.ofNat c.toNat)

def numberDoc (i : Nat) (doc : List UInt8) : List Line :=
  (tokens (· == 10) (doc.map (fun b => if b == 9 then 32 else b))).map (fun l => l ++ [9] ++ decimal i)

/-- `none`: base64_decode threw (the tool aborts). `lines` are the input lines, numbered from `start`. -/
def base64NumberFrom : Nat → List Line → Option (List Line)
  | _, [] => some []
  | i, l :: ls =>
    match PV.Base64.decode l with
    | .ok doc => (base64NumberFrom (i + 1) ls).map (numberDoc i doc ++ ·)
    | _ => none

def base64Number (ls : List Line) : Option (List Line) := base64NumberFrom 0 ls

/-! ### vocab: every distinct word once, in order of first appearance, NUL-terminated -/

def vocabDelim (b : UInt8) : Bool := b == 0 || b == 9 || b == 13 || b == 10 || b == 32

/-- `MurmurHashNative(word, size)` with the default seed 0 -/
def wordKey (w : Line) : Nat := (PV.Murmur.hash64A w (seedOf 0)).toNat

def vocabWords (input : List UInt8) : List Line := tokens vocabDelim input

/-- the whole stdout; `none` = the table model diverged (never, see the theorem). -/
def vocab (input : List UInt8) : Option (List UInt8) :=
  (dedupe wordKey (vocabWords input)).map (fun ws => ws.flatMap (· ++ [0]))

end PV.Tools2
