import PV.Spec.FirstOcc
/-
Functional model of preprocess/cache_main.cc (C04): Input() inserts the key into the map, sends
the line to the child iff the key is new, and queues a reference to the map entry; Output()
takes the references in FIFO order, fills an empty entry with the child's next answer line and
prints the entry's value.  The child answers one line per line, in order (`child : Line → Line`
applied to the lines it is sent).  The thread interleaving / pipes are the wrapper LTS (C05);
here the two loops are composed through the FIFO.
-/
namespace PV.Cache

abbrev Line := List UInt8

/-- Input(): returns (lines sent to the child, queue of (key, isNew)). -/
def input (key : Line → Nat) : List Nat → List Line → List Line × List (Nat × Bool)
  | _, [] => ([], [])
  | seen, l :: ls =>
    let k := key l
    let isNew := !(seen.contains k)
    let (sent, q) := input key (if isNew then k :: seen else seen) ls
    (if isNew then l :: sent else sent, (k, isNew) :: q)

/-- Output(): entries are (key ↦ answer) ; an entry is filled the first time its reference is
    consumed (value.data() == NULL), from the child's remaining answers.
    `none` = the child produced too few answers (ReadLine throws). -/
def output : List (Nat × Line) → List Line → List (Nat × Bool) → Option (List Line)
  | _, _, [] => some []
  | filled, answers, (k, _) :: q =>
    match filled.find? (·.1 == k) with
    | some (_, v) => (output filled answers q).map (v :: ·)
    | none =>
      match answers with
      | [] => none
      | a :: rest => (output ((k, a) :: filled) rest q).map (a :: ·)

/-- cache with a line-to-line child. -/
def run (key : Line → Nat) (child : Line → Line) (lines : List Line) : Option (List Line) :=
  let (sent, q) := input key [] lines
  output [] (sent.map child) q

/-- the lines the child receives. -/
def childInput (key : Line → Nat) (lines : List Line) : List Line := (input key [] lines).1

end PV.Cache
