import PV.Model.Utf8
import PV.Spec.Utf8
