import PV.Driver.Units

partial def loop (hin hout : IO.FS.Stream) : IO Unit := do
  let line ← hin.getLine
  if line.isEmpty then return ()
  hout.putStrLn (PV.Units.dispatch line)
  loop hin hout

def main : IO Unit := do
  let hin ← IO.getStdin
  let hout ← IO.getStdout
  loop hin hout
  hout.flush
