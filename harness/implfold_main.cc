// Implementation-side driver for foldfilter's wrap_lines (static in foldfilter_main.cc).
#include "proto.hh"
#define main foldfilter_main_renamed
#include "preprocess/foldfilter_main.cc"
#undef main
using namespace pv;

// fold.wrap <width> <keep 0|1> <delims: comma separated code points or -> <hexline>
static Reg r_fold_wrap("fold.wrap", [](const std::vector<std::string> &a) -> std::string {
  std::string line;
  if (a.size() != 4 || !unhex(a[3], line)) return "bad-op";
  wrap_options o;
  o.column_width = strtoul(a[0].c_str(), NULL, 10);
  o.keep_delimiters_in_lines = a[1] == "1";
  o.delimiters.clear();
  if (a[2] != "-") {
    std::istringstream is(a[2]);
    std::string t;
    while (std::getline(is, t, ',')) o.delimiters.push_back((char32_t)strtoul(t.c_str(), NULL, 10));
  }
  char *buf = new char[line.size()];
  memcpy(buf, line.data(), line.size());
  std::deque<util::StringPiece> lines;
  std::vector<util::StringPiece> delims;
  std::string out;
  try {
    wrap_lines(util::StringPiece(buf, line.size()), o, lines, delims);
    if (lines.size() != delims.size()) out = "ERR:size-mismatch";
    else {
      out = "ok " + std::to_string(lines.size());
      for (size_t i = 0; i < lines.size(); ++i)
        out += " " + hex(std::string(lines[i].data(), lines[i].size())) + "/" + hex(std::string(delims[i].data(), delims[i].size()));
    }
  } catch (const util::NotUTF8Exception &) {
    out = "ERR:notutf8";
  }
  delete[] buf;
  return out;
});

int main() { return pv::main_loop(); }
