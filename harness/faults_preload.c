/* LD_PRELOAD fault shim (C03, C11): scripted outcomes for read/write/fsync/close.
 *   PV_FAULT_RANDOM=<seed>:<pshort%>:<peintr%>   random short counts / EINTR on every read and write
 *   PV_FAULTS=w3=e28,r2=eintr,w1=short1,f1=e5,c2=e5   the k-th call of an op (on a data fd) gets the action
 *   PV_FAULT_MAXSHORT=<n>   random short counts are drawn from 1..n (default: 1..count-1, which for a 64 KiB request on a
 *                           small input hardly ever shortens anything); a short count is reported as fired only when it
 *                           actually shortened the transfer (the call returned exactly the clamped count)
 *   PV_FAULT_FULL=<fd>:<bytes>:<name>   the device behind <fd> (-1 = every descriptor > 2) fills up after <bytes> bytes, the way a
 *                           full disk or a file-size limit looks to a program: the write that crosses the limit is SHORT (it
 *                           accepts what still fits) and every later write fails with ENOSPC; only in the process whose
 *                           program name ends with <name>
 *   PV_FAULT_FDS=0,1,...     restrict to these descriptors (default: every fd except 2)
 *   PV_FAULT_REPORT=<path>   at exit append "calls=<n> fired=<m>"
 *   PV_DELAY_AFTER_WRITE_US=<us> / PV_DELAY_BEFORE_READ_US=<us>   sleep around every write / read on descriptors > 2
 *                            (nothing is dropped or reordered: pins one legal schedule of the threads)
 *   PV_FAULT_FSYNC_REGULAR=<errno>   every fsync of a regular file fails with that errno (a write-back error of the output
 *                           file); other descriptors are left alone
 *   PV_DELAY_AFTER_POST_US=<us>:<from>-<to>   sleep after the from-th..to-th sem_post (see the end of this file)
 *   PV_DELAY_AFTER_UNLOCK_US=<us>[:<n>]   sleep after every n-th (default 3rd) pthread_mutex_unlock: widens the window between the
 *                           end of a critical section and the statement after it (a legal schedule; nothing is reordered)
 *   PV_DELAY_ONLY=<name>     apply the delays only in the process whose program name ends with <name>
 * Calls made by glibc's stdio internally do not go through the PLT and are not affected.
 */
#define _GNU_SOURCE
#include <errno.h>
#include <stdio.h>
#include <stdlib.h>
#include <string.h>
#include <sys/syscall.h>
#include <unistd.h>
#include <pthread.h>

static int inited = 0;
static unsigned long long rng_state = 0;
static int p_short = 0, p_eintr = 0, use_random = 0;
static long counts[4];                 /* r w f c */
static long fired = 0, calls = 0;
struct rule { int op; long k; int kind; long arg; };   /* kind: 0 eintr, 1 short, 2 errno */
static struct rule rules[64];
static int nrules = 0;
static int fd_filter[64];
static int nfd_filter = 0;
static long max_short = 0;
static pthread_mutex_t mu = PTHREAD_MUTEX_INITIALIZER;

static void note_fired(void) {
  /* written at once: a tool that aborts because of the fault never reaches atexit */
  const char *p = getenv("PV_FAULT_REPORT");
  if (!p) return;
  int fd = syscall(SYS_open, p, 02001 | 0100, 0644);
  if (fd >= 0) { syscall(SYS_write, fd, "fired=1\n", 8); syscall(SYS_close, fd); }
}

static void note_rule(void) {
  /* an explicit PV_FAULTS rule (k-th call fails) fired, as opposed to a random short count */
  const char *p = getenv("PV_FAULT_REPORT");
  if (!p) return;
  int fd = syscall(SYS_open, p, 02001 | 0100, 0644);
  if (fd >= 0) { syscall(SYS_write, fd, "rule=1\n", 7); syscall(SYS_close, fd); }
}

static void report(void) {
  const char *p = getenv("PV_FAULT_REPORT");
  if (!p) return;
  char buf[128];
  int n = snprintf(buf, sizeof buf, "calls=%ld r=%ld w=%ld f=%ld c=%ld\n", calls, counts[0], counts[1], counts[2], counts[3]);
  int fd = syscall(SYS_open, p, 02001 | 0100, 0644);   /* O_WRONLY|O_APPEND|O_CREAT */
  if (fd >= 0) { syscall(SYS_write, fd, buf, n); syscall(SYS_close, fd); }
}

static void init(void) {
  if (inited) return;
  inited = 1;
  const char *r = getenv("PV_FAULT_RANDOM");
  if (r) {
    unsigned long long seed = 1; int a = 0, b = 0;
    sscanf(r, "%llu:%d:%d", &seed, &a, &b);
    rng_state = seed * 6364136223846793005ULL + 1442695040888963407ULL;
    p_short = a; p_eintr = b; use_random = 1;
  }
  const char *ms = getenv("PV_FAULT_MAXSHORT");
  if (ms) max_short = atol(ms);
  const char *f = getenv("PV_FAULTS");
  if (f) {
    char *s = strdup(f), *tok, *save;
    for (tok = strtok_r(s, ",", &save); tok && nrules < 64; tok = strtok_r(NULL, ",", &save)) {
      struct rule x; char *eq = strchr(tok, '=');
      if (!eq) continue;
      x.op = tok[0] == 'r' ? 0 : tok[0] == 'w' ? 1 : tok[0] == 'f' ? 2 : 3;
      x.k = atol(tok + 1);
      if (!strncmp(eq + 1, "eintr", 5)) { x.kind = 0; x.arg = 0; }
      else if (!strncmp(eq + 1, "short", 5)) { x.kind = 1; x.arg = atol(eq + 6); if (x.arg < 1) x.arg = 1; }
      else { x.kind = 2; x.arg = atol(eq + 2); }
      rules[nrules++] = x;
    }
    free(s);
  }
  const char *d = getenv("PV_FAULT_FDS");
  if (d) {
    char *s = strdup(d), *tok, *save;
    for (tok = strtok_r(s, ",", &save); tok && nfd_filter < 64; tok = strtok_r(NULL, ",", &save)) fd_filter[nfd_filter++] = atoi(tok);
    free(s);
  }
  atexit(report);
}

static int full_fd = -2; static long full_left = 0;
static void full_init(void) {
  static int done = 0;
  if (done) return;
  done = 1;
  const char *f = getenv("PV_FAULT_FULL");
  if (!f) return;
  int fd = 0; long lim = 0; char name[64] = "";
  if (sscanf(f, "%d:%ld:%63s", &fd, &lim, name) < 2) return;
  extern char *program_invocation_short_name;
  size_t n = strlen(name), m = strlen(program_invocation_short_name);
  if (n && (m < n || strcmp(program_invocation_short_name + m - n, name))) return;
  full_fd = fd; full_left = lim;
}

static long delay_w = -1, delay_r = -1, delay_u = 0, delay_u_every = 3;
static void delays_init(void) {
  if (delay_w >= 0) return;
  { const char *u = getenv("PV_DELAY_AFTER_UNLOCK_US"); if (u) { delay_u = atol(u); const char *c = strchr(u, ':'); if (c && atol(c + 1) > 0) delay_u_every = atol(c + 1); } }
  const char *a = getenv("PV_DELAY_AFTER_WRITE_US"), *b = getenv("PV_DELAY_BEFORE_READ_US"), *only = getenv("PV_DELAY_ONLY");
  delay_w = a ? atol(a) : 0;
  delay_r = b ? atol(b) : 0;
  if (only) {
    extern char *program_invocation_short_name;
    size_t n = strlen(only), m = strlen(program_invocation_short_name);
    if (m < n || strcmp(program_invocation_short_name + m - n, only)) { delay_w = 0; delay_r = 0; delay_u = 0; }
  }
}

static int watched(int fd) {
  if (fd == 2) return 0;
  if (!nfd_filter) return 1;
  for (int i = 0; i < nfd_filter; ++i) if (fd_filter[i] == fd) return 1;
  return 0;
}

static unsigned rnd(void) {
  rng_state = rng_state * 6364136223846793005ULL + 1442695040888963407ULL;
  return (unsigned)(rng_state >> 33);
}

/* returns: -2 = no fault; -1 = fail (errno set); >= 1 = clamp count to this */
static void effective(void) {
  pthread_mutex_lock(&mu);
  ++fired; note_fired();
  pthread_mutex_unlock(&mu);
}

static long decide(int op, size_t count) {
  long res = -2;
  pthread_mutex_lock(&mu);
  init();
  long k = ++counts[op];
  ++calls;
  for (int i = 0; i < nrules; ++i) {
    if (rules[i].op == op && rules[i].k == k) {
      if (rules[i].kind == 0) { ++fired; note_fired(); note_rule(); errno = EINTR; res = -1; }
      else if (rules[i].kind == 2) { ++fired; note_fired(); note_rule(); errno = (int)rules[i].arg; res = -1; }
      else res = rules[i].arg;
      pthread_mutex_unlock(&mu);
      return res;
    }
  }
  if (use_random && op < 2) {
    unsigned x = rnd() % 100;
    if ((int)x < p_eintr) { ++fired; note_fired(); errno = EINTR; res = -1; }
    else if ((int)x < p_eintr + p_short && count > 1) {
      size_t span = count - 1;
      if (max_short > 0 && (size_t)max_short < span) span = (size_t)max_short;
      res = 1 + rnd() % span;
    }
  }
  pthread_mutex_unlock(&mu);
  return res;
}

ssize_t read(int fd, void *buf, size_t count) {
  int clamped = 0;
  delays_init();
  if (delay_r > 0 && fd > 2) usleep(delay_r);
  if (watched(fd) && count) {
    long d = decide(0, count);
    if (d == -1) return -1;
    if (d >= 1 && (size_t)d < count) { count = d; clamped = 1; }
  }
  ssize_t r = syscall(SYS_read, fd, buf, count);
  if (clamped && r == (ssize_t)count) effective();
  return r;
}

ssize_t write(int fd, const void *buf, size_t count) {
  int clamped = 0;
  pthread_mutex_lock(&mu);
  init();
  full_init();
  if (count && (full_fd == fd || (full_fd == -1 && fd > 2))) {
    if (full_left <= 0) { ++fired; note_fired(); pthread_mutex_unlock(&mu); errno = ENOSPC; return -1; }
    if ((long)count > full_left) {
      count = (size_t)full_left;
      ++fired; note_fired();
    }
    full_left -= (long)count;
    pthread_mutex_unlock(&mu);
    return syscall(SYS_write, fd, buf, count);
  }
  pthread_mutex_unlock(&mu);
  if (watched(fd) && count) {
    long d = decide(1, count);
    if (d == -1) return -1;
    if (d >= 1 && (size_t)d < count) { count = d; clamped = 1; }
  }
  delays_init();
  ssize_t r = syscall(SYS_write, fd, buf, count);
  if (clamped && r == (ssize_t)count) effective();
  if (delay_w > 0 && fd > 2 && r > 0) usleep(delay_w);
  return r;
}

#include <sys/stat.h>
int fsync(int fd) {
  {
    const char *fr = getenv("PV_FAULT_FSYNC_REGULAR");
    struct stat st;
    if (fr && !fstat(fd, &st) && S_ISREG(st.st_mode)) {
      pthread_mutex_lock(&mu); init(); ++fired; note_fired(); pthread_mutex_unlock(&mu);
      errno = atoi(fr);
      return -1;
    }
  }
  if (watched(fd)) {
    long d = decide(2, 0);
    if (d == -1) return -1;
  }
  return syscall(SYS_fsync, fd);
}

int close(int fd) {
  if (watched(fd)) {
    long d = decide(3, 0);
    if (d == -1) { syscall(SYS_close, fd); return -1; }
  }
  return syscall(SYS_close, fd);
}


#include <dlfcn.h>
int pthread_mutex_unlock(pthread_mutex_t *m) {
  typedef int (*fn_t)(pthread_mutex_t *);
  static fn_t real = 0;
  static __thread int busy = 0;
  static volatile long count = 0;
  if (!real) real = (fn_t)dlsym(RTLD_NEXT, "pthread_mutex_unlock");
  int r = real(m);
  if (busy || m == &mu) return r;
  busy = 1;
  delays_init();
  if (delay_u > 0 && (__sync_add_and_fetch(&count, 1) % delay_u_every) == 0) usleep(delay_u);
  busy = 0;
  return r;
}

/* PV_DELAY_AFTER_POST_US=<us>:<from>-<to>   sleep after the from-th .. to-th sem_post of the process (1-based): a legal schedule in
 * which the posting thread is descheduled right after it has made an item available, before its next statement */
#include <semaphore.h>
int sem_post(sem_t *sem) {
  typedef int (*fn_t)(sem_t *);
  static fn_t real = 0;
  static volatile long count = 0;
  static long us = -1, from = 0, to = 0;
  if (!real) real = (fn_t)dlsym(RTLD_NEXT, "sem_post");
  int r = real(sem);
  if (us < 0) {
    const char *e = getenv("PV_DELAY_AFTER_POST_US");
    long a = 0, b = 0, c = 0;
    if (e && sscanf(e, "%ld:%ld-%ld", &a, &b, &c) == 3) { from = b; to = c; us = a; } else us = 0;
    const char *only = getenv("PV_DELAY_ONLY");
    if (only) {
      extern char *program_invocation_short_name;
      size_t n = strlen(only), m = strlen(program_invocation_short_name);
      if (m < n || strcmp(program_invocation_short_name + m - n, only)) us = 0;
    }
  }
  if (us > 0) {
    long k = __sync_add_and_fetch(&count, 1);
    if (k >= from && k <= to) usleep(us);
  }
  return r;
}
