// Implementation-side driver for the ICU-based code (C19): Flatten::Apply, ToLower, Normalize, u_isspace.
#include "proto.hh"
#include "util/utf8_icu.hh"
#include "util/utf8.hh"
#include <unicode/unistr.h>
#include <unicode/uchar.h>
#include <unicode/normalizer2.h>
#include <unicode/uscript.h>
#include <algorithm>
#include <cstring>
using namespace pv;
using U_ICU_NAMESPACE::UnicodeString;

static std::string units(const UnicodeString &u) {
  if (u.length() == 0) return "-";
  std::string o;
  for (int32_t i = 0; i < u.length(); ++i) { if (i) o += ","; o += std::to_string((unsigned)u.charAt(i)); }
  return o;
}
static UnicodeString from_units(const std::string &s) {
  UnicodeString u;
  if (s == "-") return u;
  std::istringstream is(s);
  std::string t;
  while (std::getline(is, t, ',')) u.append((UChar)strtoul(t.c_str(), NULL, 10));
  return u;
}

// flat.apply <lang> <units csv|->   -> ok <units>
static Reg r_flat("flat.apply", [](const std::vector<std::string> &a) -> std::string {
  if (a.size() < 2) return "bad-op";
  try {
    util::Flatten f(a[0]);
    UnicodeString in = from_units(a.back()), out;
    f.Apply(in, out);
    return "ok " + units(out);
  } catch (const std::exception &) { return "ERR:exception"; }
});
// flat.utf8 <lang> <hex utf8>  (the StringPiece overload)
static Reg r_flat8("flat.utf8", [](const std::vector<std::string> &a) -> std::string {
  std::string s, out;
  if (a.size() != 2 || !unhex(a[1], s)) return "bad-op";
  try {
    util::Flatten f(a[0]);
    f.Apply(util::StringPiece(s), out);
    return "ok " + hex(out);
  } catch (const std::exception &) { return "ERR:exception"; }
});
static Reg r_lower("icu.lower", [](const std::vector<std::string> &a) -> std::string {
  if (a.size() != 1) return "bad-op";
  UnicodeString u = from_units(a[0]);
  u.toLower();
  return "ok " + units(u);
});
// icu.nfkc: the PARAMETER of the model -- ICU's own NFKC (Normalizer2), not the code under test
static Reg r_nfkc("icu.nfkc", [](const std::vector<std::string> &a) -> std::string {
  if (a.size() != 1) return "bad-op";
  UnicodeString u = from_units(a[0]);
  UErrorCode ec = U_ZERO_ERROR;
  const U_ICU_NAMESPACE::Normalizer2 *n = U_ICU_NAMESPACE::Normalizer2::getNFKCInstance(ec);
  if (U_FAILURE(ec)) return "ERR:icu";
  UnicodeString out = n->normalize(u, ec);
  if (U_FAILURE(ec)) return "ERR:icu";
  return "ok " + units(out);
});
// icu.isnfkc <units> -> 1 / 0 (Normalizer2::isNormalized)
static Reg r_isnfkc("icu.isnfkc", [](const std::vector<std::string> &a) -> std::string {
  if (a.size() != 1) return "bad-op";
  UErrorCode ec = U_ZERO_ERROR;
  const U_ICU_NAMESPACE::Normalizer2 *n = U_ICU_NAMESPACE::Normalizer2::getNFKCInstance(ec);
  if (U_FAILURE(ec)) return "ERR:icu";
  bool r = n->isNormalized(from_units(a[0]), ec);
  return std::string("ok ") + (r ? "1" : "0");
});
// util.nfkc / util.nfkc8 / util.lower8: the code under test (util/utf8_icu.cc)
static Reg r_unfkc("util.nfkc", [](const std::vector<std::string> &a) -> std::string {
  if (a.size() != 1) return "bad-op";
  UnicodeString u = from_units(a[0]), out;
  try { util::Normalize(u, out); } catch (const std::exception &) { return "ERR:exception"; }
  return "ok " + units(out);
});
static Reg r_unfkc8("util.nfkc8", [](const std::vector<std::string> &a) -> std::string {
  std::string s, out;
  if (a.size() != 1 || !unhex(a[0], s)) return "bad-op";
  try { util::Normalize(util::StringPiece(s), out); } catch (const std::exception &) { return "ERR:exception"; }
  return "ok " + hex(out);
});
static Reg r_ulower8("util.lower8", [](const std::vector<std::string> &a) -> std::string {
  std::string s, out;
  if (a.size() != 1 || !unhex(a[0], s)) return "bad-op";
  try { util::ToLower(util::StringPiece(s), out); } catch (const std::exception &) { return "ERR:exception"; }
  return "ok " + hex(out);
});
static Reg r_u16("icu.fromutf8", [](const std::vector<std::string> &a) -> std::string {
  std::string s;
  if (a.size() != 1 || !unhex(a[0], s)) return "bad-op";
  return "ok " + units(UnicodeString::fromUTF8(s));
});
static Reg r_u8("icu.toutf8", [](const std::vector<std::string> &a) -> std::string {
  if (a.size() != 1) return "bad-op";
  std::string o;
  from_units(a[0]).toUTF8String(o);
  return "ok " + hex(o);
});
// icu.spaces <cp csv> -> the subset for which u_isspace holds
static Reg r_sp("icu.spaces", [](const std::vector<std::string> &a) -> std::string {
  if (a.size() != 1) return "bad-op";
  std::istringstream is(a[0]);
  std::string t, o;
  while (std::getline(is, t, ',')) { UChar32 c = strtoul(t.c_str(), NULL, 10); if (u_isspace(c)) { if (!o.empty()) o += ","; o += t; } }
  return "ok " + (o.empty() ? std::string("-") : o);
});
// icu.classify <cp csv> -> cp:script:punct:space,...   (uscript_getScript / u_ispunct / u_isspace; script x = failure/invalid)
static Reg r_cls("icu.classify", [](const std::vector<std::string> &a) -> std::string {
  if (a.size() != 1) return "bad-op";
  if (a[0] == "-") return "ok -";
  std::istringstream is(a[0]);
  std::string t, o;
  while (std::getline(is, t, ',')) {
    UChar32 c = (UChar32)strtoul(t.c_str(), NULL, 10);
    UErrorCode err = U_ZERO_ERROR;
    UScriptCode sc = uscript_getScript(c, &err);
    if (!o.empty()) o += ",";
    o += t + ":" + ((U_FAILURE(err) || sc == USCRIPT_INVALID_CODE) ? std::string("x") : std::to_string((int)sc)) + ":" + (u_ispunct(c) ? "1" : "0") + ":" + (u_isspace(c) ? "1" : "0");
  }
  return "ok " + o;
});
// icu.scriptcodes <name> -> sorted unique UScriptCode values (as simple_cleaning's --scripts resolves them)
static Reg r_sc("icu.scriptcodes", [](const std::vector<std::string> &a) -> std::string {
  if (a.size() != 1) return "bad-op";
  UScriptCode buf[32];
  UErrorCode err = U_ZERO_ERROR;
  int32_t n = uscript_getCode(a[0].c_str(), buf, 32, &err);
  if (U_FAILURE(err) || n <= 0) return "ERR:script";
  std::sort(buf, buf + n);
  n = (int32_t)(std::unique(buf, buf + n) - buf);
  std::string o;
  for (int32_t i = 0; i < n; ++i) { if (i) o += ","; o += std::to_string((int)buf[i]); }
  return "ok " + o;
});
int main() { return pv::main_loop(); }
