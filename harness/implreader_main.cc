// Implementation-side driver for util::FilePiece (C02) and the retry loops in util/file.cc (C03).
// read(2) and write(2) are interposed inside this binary (the definitions below win over libc and
// the sanitizer interceptors): calls on the *watched* descriptor follow a script of outcomes.
#include "proto.hh"
#include "util/file_piece.hh"
#include "util/file.hh"
#include "util/exception.hh"
#include <sys/syscall.h>
#include <unistd.h>
#include <fcntl.h>
#include <thread>
#include <cerrno>
#include <cstring>
#include <sstream>
#include <fstream>
#include <sys/mman.h>
using namespace pv;

namespace {
int g_watch_fd = -1;
std::vector<long> g_sched;     // >0: return at most that many bytes; 0: EINTR; -e: fail with errno e
size_t g_sched_pos = 0;
std::string g_log;             // what the code asked for, per call on the watched fd
long g_mmap_fail_from = -1;    // >= 0: file-backed mmap calls on the watched fd fail (ENODEV) from this call index on
long g_mmap_calls = 0;
}

// mmap(2) on the watched descriptor can be made to fail, which is what a file system without mmap support, an
// exhausted address space or vm.max_map_count looks like to FilePiece (it then falls back to read(2))
extern "C" void *mmap(void *addr, size_t length, int prot, int flags, int fd, off_t offset) {
  if (fd >= 0 && fd == g_watch_fd && g_mmap_fail_from >= 0) {
    long k = g_mmap_calls++;
    g_log += "m" + std::to_string((long long)offset) + " ";
    if (k >= g_mmap_fail_from) { errno = ENODEV; return MAP_FAILED; }
  }
  return (void *)syscall(SYS_mmap, addr, length, prot, flags, fd, offset);
}

extern "C" ssize_t read(int fd, void *buf, size_t count) {
  if (fd == g_watch_fd) {
    g_log += "r" + std::to_string(count) + " ";
    if (g_sched_pos < g_sched.size()) {
      long n = g_sched[g_sched_pos++];
      if (n == 0) { errno = EINTR; return -1; }
      if (n < 0) { errno = (int)-n; return -1; }
      if ((size_t)n < count) count = (size_t)n;
    }
  }
  return syscall(SYS_read, fd, buf, count);
}

extern "C" ssize_t write(int fd, const void *buf, size_t count) {
  if (fd == g_watch_fd) {
    g_log += "w" + std::to_string(count) + " ";
    if (g_sched_pos < g_sched.size()) {
      long n = g_sched[g_sched_pos++];
      if (n == 0) { errno = EINTR; return -1; }
      if (n < 0) { errno = (int)-n; return -1; }
      if ((size_t)n < count) count = (size_t)n;
    }
  }
  return syscall(SYS_write, fd, buf, count);
}

static void set_sched(const std::string &s) {
  g_sched.clear();
  g_sched_pos = 0;
  g_log.clear();
  if (s == "-") return;
  std::istringstream is(s);
  std::string t;
  while (std::getline(is, t, ',')) g_sched.push_back(strtol(t.c_str(), NULL, 10));
}

static std::string collect(util::FilePiece &f, char delim, bool strip, int how) {
  std::string o;
  size_t n = 0;
  util::StringPiece l;
  if (how == 0) {
    while (f.ReadLineOrEOF(l, delim, strip)) { o += " " + hex(std::string(l.data(), l.size())); ++n; }
  } else if (how == 1) {
    try { while (true) { l = f.ReadLine(delim, strip); o += " " + hex(std::string(l.data(), l.size())); ++n; } }
    catch (const util::EndOfFileException &) {}
  } else {
    for (util::LineIterator it(f, delim); it; ++it) { o += " " + hex(std::string(it->data(), it->size())); ++n; }
  }
  // end of input must be reported on every further call
  int again = 0;
  for (int k = 0; k < 3; ++k) if (!f.ReadLineOrEOF(l, delim, strip)) ++again;
  return "ok " + std::to_string(n) + o + (again == 3 ? "" : " EOF-NOT-STABLE");
}

// reader.lines <backing pipe|file|istream> <delimhex> <strip 0|1> <min_buffer> <sched|-> <how 0|1|2> <start> <hexdata>
static Reg r_reader_lines("reader.lines", [](const std::vector<std::string> &a) -> std::string {
  std::string data, d;
  if (a.size() != 8 || !unhex(a[1], d) || d.size() != 1 || !unhex(a[7], data)) return "bad-op";
  bool strip = a[2] == "1";
  size_t min_buffer = strtoul(a[3].c_str(), NULL, 10);
  int how = atoi(a[5].c_str());
  size_t start = strtoul(a[6].c_str(), NULL, 10);
  std::string out;
  try {
    if (a[0] == "pipe") {
      int fds[2];
      if (pipe(fds)) return "ERR:pipe";
      std::thread w([&]() {
        size_t off = 0;
        while (off < data.size()) {
          ssize_t k = syscall(SYS_write, fds[1], data.data() + off, data.size() - off);
          if (k <= 0) break;
          off += k;
        }
        close(fds[1]);
      });
      set_sched(a[4]);
      g_watch_fd = fds[0];
      try {
        util::FilePiece f(fds[0], "pipe", NULL, min_buffer);
        out = collect(f, d[0], strip, how);
      } catch (...) { g_watch_fd = -1; w.join(); throw; }
      g_watch_fd = -1;
      w.join();
    } else if (a[0] == "file" || a[0].rfind("filenommap", 0) == 0) {
      // "filenommap:<k>": the k-th and all later mmap calls on the file fail
      g_mmap_fail_from = -1;
      g_mmap_calls = 0;
      if (a[0] != "file") g_mmap_fail_from = a[0].size() > 11 ? strtol(a[0].c_str() + 11, NULL, 10) : 0;
      char name[] = "/verif/.cache/tmp/pvreaderXXXXXX";
      int fd = mkstemp(name);
      if (fd < 0) return "ERR:mkstemp";
      unlink(name);
      size_t off = 0;
      while (off < data.size()) { ssize_t k = syscall(SYS_write, fd, data.data() + off, data.size() - off); if (k <= 0) break; off += k; }
      lseek(fd, start, SEEK_SET);
      set_sched(a[4]);
      g_watch_fd = fd;        // only used if FilePiece falls back to read (compressed content, failing mmap)
      util::FilePiece f(fd, "file", NULL, min_buffer);
      out = collect(f, d[0], strip, how);
      g_watch_fd = -1;
      g_mmap_fail_from = -1;
    } else if (a[0] == "istream") {
      std::istringstream is(data);
      util::FilePiece f(is, "istream", min_buffer);
      out = collect(f, d[0], strip, how);
    } else return "bad-op";
  } catch (const util::EndOfFileException &) {
    g_watch_fd = -1;
    g_mmap_fail_from = -1;
    return "ERR:eof";
  } catch (const util::Exception &e) {
    g_watch_fd = -1;
    g_mmap_fail_from = -1;
    return "ERR:exception";
  }
  return out;
});

// ---- retry loops (C03): io.write <sched> <hexdata> ; io.readorthrow/readoreof/partialread <sched> <amount> <hexdata>
// output: result + the sequence of (requested sizes) the code issued on the descriptor
static Reg r_io_write("io.write", [](const std::vector<std::string> &a) -> std::string {
  std::string data;
  if (a.size() != 2 || !unhex(a[1], data)) return "bad-op";
  char name[] = "/verif/.cache/tmp/pvioXXXXXX";
  int fd = mkstemp(name);
  if (fd < 0) return "ERR:mkstemp";
  unlink(name);
  set_sched(a[0]);
  g_watch_fd = fd;
  std::string res;
  try {
    util::WriteOrThrow(fd, data.data(), data.size());
    res = "ok";
  } catch (const util::Exception &) { res = "ERR:errno"; }
  g_watch_fd = -1;
  std::string log = g_log;
  // what actually reached the file
  std::string got(data.size() + 16, 0);
  ssize_t k = pread(fd, &got[0], got.size(), 0);
  got.resize(k < 0 ? 0 : k);
  close(fd);
  return res + " " + hex(got) + " | " + log;
});

static std::string io_read(const std::vector<std::string> &a, int which) {
  std::string data;
  if (a.size() != 3 || !unhex(a[2], data)) return "bad-op";
  size_t amount = strtoul(a[1].c_str(), NULL, 10);
  int fds[2];
  if (pipe(fds)) return "ERR:pipe";
  if (data.size() > 60000) return "bad-op";
  syscall(SYS_write, fds[1], data.data(), data.size());
  close(fds[1]);
  set_sched(a[0]);
  g_watch_fd = fds[0];
  std::string buf(amount, 0);
  std::string res;
  try {
    size_t got = 0;
    if (which == 0) { util::ReadOrThrow(fds[0], &buf[0], amount); got = amount; }
    else if (which == 1) got = util::ReadOrEOF(fds[0], &buf[0], amount);
    else got = util::PartialRead(fds[0], &buf[0], amount);
    res = "ok " + hex(buf.substr(0, got));
  } catch (const util::EndOfFileException &) { res = "ERR:eof -";
  } catch (const util::Exception &) { res = "ERR:errno -"; }
  g_watch_fd = -1;
  close(fds[0]);
  return res + " | " + g_log;
}
static Reg r_io_rot("io.readorthrow", [](const std::vector<std::string> &a) { return io_read(a, 0); });
static Reg r_io_roe("io.readoreof", [](const std::vector<std::string> &a) { return io_read(a, 1); });
static Reg r_io_pr("io.partialread", [](const std::vector<std::string> &a) { return io_read(a, 2); });

// ---- WARC (C17): warc.read <sched|-> <hexdata>  -> "ok n rec.. [ERR:kind]"
#include "preprocess/warc.hh"
static Reg r_warc("warc.read", [](const std::vector<std::string> &a) -> std::string {
  std::string data;
  if (a.size() != 2 || !unhex(a[1], data)) return "bad-op";
  int fds[2];
  if (pipe(fds)) return "ERR:pipe";
  std::thread w([&]() {
    size_t off = 0;
    while (off < data.size()) {
      ssize_t k = syscall(SYS_write, fds[1], data.data() + off, data.size() - off);
      if (k <= 0) break;
      off += k;
    }
    close(fds[1]);
  });
  std::string out;
  size_t n = 0;
  std::string err;
  {
    set_sched(a[0]);
    g_watch_fd = fds[0];
    try {
      preprocess::WARCReader reader(fds[0]);
      std::string rec;
      while (reader.Read(rec)) { out += " " + hex(rec); ++n; }
    } catch (const util::EndOfFileException &e) { err = " ERR:eof";
    } catch (const util::Exception &e) {
      std::string m = e.what();
      if (m.find("Expected WARC/1.0") != std::string::npos) err = " ERR:version";
      else if (m.find("Two Content-Length") != std::string::npos) err = " ERR:twolengths";
      else if (m.find("Content-Length") != std::string::npos && m.find("No Content-Length") == std::string::npos) err = " ERR:lengthparse";
      else if (m.find("No Content-Length") != std::string::npos) err = " ERR:nolength";
      else if (m.find("missing CRLF") != std::string::npos) err = " ERR:noterminator";
      else err = " ERR:other";
    } catch (const std::exception &e) { err = " ERR:std";
    }
    g_watch_fd = -1;
  }
  // drain so the writer thread can finish
  char buf[4096];
  while (syscall(SYS_read, fds[0], buf, sizeof buf) > 0) {}
  w.join();
  return "ok " + std::to_string(n) + out + err;
});

int main() { return pv::main_loop(); }
