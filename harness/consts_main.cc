// The translator's C++ half: prints constants and tables as the C++ compiler evaluates them
// for the current /repo tree.  tools/gen_consts.py turns the output into PV/Gen/Consts.lean.
// Format: one line per constant:  <kind> <name> <values...>
//   nat   name v
//   int   name v
//   ints  name v0 v1 ...
//   bytes name hex
#include <cstdio>
#include <cstdint>
#include <string>
#include <limits>
#define main base64_unused_main
#include "preprocess/base64.cc"
#undef main
#include "preprocess/fields.hh"
#include "util/spaces.hh"
#include "util/integer_to_string.hh"
#include "util/float_to_string.hh"
#include "util/buffered_stream.hh"
#include "util/threaded_buffered_stream.hh"
#include "util/compress.hh"
#include "util/utf8_icu.cc"
#include <unicode/unistr.h>
#include <algorithm>
#include "preprocess/captive_child.hh"
#include <signal.h>
#include <sys/resource.h>
#include <sys/wait.h>
#include <unistd.h>

static void nat(const char *n, unsigned long long v) { printf("nat %s %llu\n", n, v); }

int main() {
  printf("ints invTable");
  for (int i = 0; i < 256; ++i) printf(" %d", preprocess::INV_TABLE[i]);
  printf("\n");
  printf("bytes b64Table ");
  for (const char *p = preprocess::TABLE; *p; ++p) printf("%02x", (unsigned char)*p);
  printf("\n");
  nat("b64TableLen", strlen(preprocess::TABLE));
  printf("ints kSpaces");
  for (int i = 0; i < 256; ++i) printf(" %d", util::kSpaces[i] ? 1 : 0);
  printf("\n");
  nat("shardSeed", preprocess::HashCallback().Hash());
  nat("kInfiniteEnd", preprocess::FieldRange::kInfiniteEnd);
  nat("kBytesBool", util::ToStringBuf<bool>::kBytes);
  nat("kBytesU16", util::ToStringBuf<uint16_t>::kBytes);
  nat("kBytesI16", util::ToStringBuf<int16_t>::kBytes);
  nat("kBytesU32", util::ToStringBuf<uint32_t>::kBytes);
  nat("kBytesI32", util::ToStringBuf<int32_t>::kBytes);
  nat("kBytesU64", util::ToStringBuf<uint64_t>::kBytes);
  nat("kBytesI64", util::ToStringBuf<int64_t>::kBytes);
  nat("kBytesPtr", util::ToStringBuf<const void*>::kBytes);
  nat("kBytesDouble", util::ToStringBuf<double>::kBytes);
  nat("kBytesFloat", util::ToStringBuf<float>::kBytes);
  nat("kToStringMaxBytes", util::kToStringMaxBytes);
  nat("kBlocks", util::BlockQueue::kBlocks);
  nat("kBlockSize", util::BlockQueue::kBlockSize);
  nat("kMagicSize", util::ReadCompressed::kMagicSize);
  // preprocess::Wait(child) for children that exit with a code or die of a signal (C11):
  //   waitexit <code> <Wait()>   /  waitsig <signal> <Wait()>
  {
    fflush(stdout);
    struct rlimit nocore = {0, 0};
    const int codes[] = {0, 1, 2, 3, 126, 127, 200, 255};
    // every Wait(child) is called while an unrelated child of this process has already terminated (exit 0) and has
    // not been collected: the result must be the status of `child`, not of whichever child ends first
    auto decoy = []() { pid_t d = fork(); if (d == 0) _exit(0); siginfo_t info; waitid(P_PID, d, &info, WEXITED | WNOWAIT); return d; };
    for (int c : codes) {
      pid_t d = decoy();
      pid_t pid = fork();
      if (pid == 0) _exit(c);
      printf("waitexit %d %d\n", c, preprocess::Wait(pid));
      fflush(stdout);
      int st; waitpid(d, &st, 0);
    }
    const int sigs[] = {1, 2, 3, 4, 5, 6, 7, 8, 9, 10, 11, 12, 13, 14, 15, 16, 24, 25, 26, 27, 29, 30, 31};
    for (int sg : sigs) {
      pid_t pid = fork();
      if (pid == 0) { setrlimit(RLIMIT_CORE, &nocore); signal(sg, SIG_DFL); kill(getpid(), sg); _exit(77); }
      pid_t d = decoy();
      printf("waitsig %d %d\n", sg, preprocess::Wait(pid));
      fflush(stdout);
      int st; waitpid(d, &st, 0);
    }
  }
  // Flatten rule tables per language (C19): one line per start character
  //   flat <lang> <startcp> <fallback units csv|-> <nrules> { <rb 0|1> <suffix units csv|-> <to units csv|-> }
  const char *langs[] = {"en", "fr", "de", "es", "cs"};
  auto units = [](const U_ICU_NAMESPACE::UnicodeString &u) {
    std::string o;
    for (int32_t i = 0; i < u.length(); ++i) { if (i) o += ","; o += std::to_string((unsigned)u.charAt(i)); }
    return o.empty() ? std::string("-") : o;
  };
  for (const char *lang : langs) {
    const util::FlattenData &d = util::LookupFlatten(lang);
    std::vector<UChar32> keys;
    for (auto &kv : d.starts) keys.push_back(kv.first);
    std::sort(keys.begin(), keys.end());
    for (UChar32 k : keys) {
      const util::FlattenData::Start &st = d.starts.find(k)->second;
      printf("flat %s %d %s %zu", lang, (int)k, units(st.character).c_str(), st.longer.size());
      for (auto &r : st.longer) printf(" %d %s %s", r.right_boundary ? 1 : 0, units(r.from_suffix).c_str(), units(r.to).c_str());
      printf("\n");
    }
  }
  return 0;
}
