// Implementation-side driver: calls the real kpu/preprocess code in-process.
#include "proto.hh"
#include "util/utf8.hh"
#include "preprocess/base64.hh"
#include "util/exception.hh"

using namespace pv;

// ---------------------------------------------------------------- utf8 (C12)
static Reg r_utf8_decode("utf8.decode", [](const std::vector<std::string> &a) -> std::string {
  std::string bs;
  if (a.size() != 1 || !unhex(a[0], bs)) return "bad-op";
  if (bs.empty()) return "ERR:notutf8";   // DecodeUTF8 presumes end > begin; the iterator never calls it so
  // copy to an exactly-sized heap block so ASan sees any over-read
  char *buf = new char[bs.size()];
  memcpy(buf, bs.data(), bs.size());
  std::string out;
  try {
    size_t len = 0;
    char32_t cp = util::DecodeUTF8(buf, buf + bs.size(), &len);
    out = "ok " + std::to_string((uint32_t)cp) + " " + std::to_string(len);
  } catch (const util::NotUTF8Exception &) {
    out = "ERR:notutf8";
  }
  delete[] buf;
  return out;
});

static Reg r_utf8_isutf8("utf8.isutf8", [](const std::vector<std::string> &a) -> std::string {
  std::string bs;
  if (a.size() != 1 || !unhex(a[0], bs)) return "bad-op";
  char *buf = new char[bs.size() + 1];
  memcpy(buf, bs.data(), bs.size());
  bool r = util::IsUTF8(util::StringPiece(buf, bs.size()));
  delete[] buf;
  return r ? "true" : "false";
});

// ---------------------------------------------------------------- base64 (C09)
static Reg r_b64_enc("b64.enc", [](const std::vector<std::string> &a) -> std::string {
  std::string bs, out;
  if (a.size() != 1 || !unhex(a[0], bs)) return "bad-op";
  preprocess::base64_encode(bs, out);
  return "ok " + hex(out);
});

static Reg r_b64_dec("b64.dec", [](const std::vector<std::string> &a) -> std::string {
  std::string bs, out;
  if (a.size() != 1 || !unhex(a[0], bs)) return "bad-op";
  try {
    preprocess::base64_decode(bs, out);
  } catch (const util::Exception &) {
    return "ERR:notb64";
  } catch (const std::length_error &) {
    return "ERR:length";
  }
  return "ok " + hex(out);
});

int main() { return pv::main_loop(); }
