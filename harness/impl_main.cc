// Implementation-side driver: calls the real kpu/preprocess code in-process.
#include "proto.hh"
#include <cstdint>
#include "util/utf8.hh"
#include "preprocess/base64.hh"
#include "util/exception.hh"
#include <cstring>
#include <cstdlib>
#include <sys/mman.h>

using namespace pv;

// Anonymous mappings of 1 MiB and more can be made to fail with ENOMEM (a process at its address-space or overcommit limit): the
// code under test must then fall back to the heap without changing its behaviour.  Switched on per op.
#include <sys/syscall.h>
#include <unistd.h>
#include <cerrno>
static bool g_fail_big_anon_mmap = false;
static unsigned long g_failed_mmaps = 0;
extern "C" void *mmap(void *addr, size_t length, int prot, int flags, int fd, off_t offset) {
  if (g_fail_big_anon_mmap && (flags & MAP_ANONYMOUS) && length >= (1u << 20)) { ++g_failed_mmaps; errno = ENOMEM; return MAP_FAILED; }
  return (void *)syscall(SYS_mmap, addr, length, prot, flags, fd, offset);
}
extern "C" void *mremap(void *old_address, size_t old_size, size_t new_size, int flags, ...) {
  if (g_fail_big_anon_mmap && new_size >= (1u << 20)) { ++g_failed_mmaps; errno = ENOMEM; return MAP_FAILED; }
  return (void *)syscall(SYS_mremap, old_address, old_size, new_size, flags, 0);
}

// ---------------------------------------------------------------- utf8 (C12)
static Reg r_utf8_decode("utf8.decode", [](const std::vector<std::string> &a) -> std::string {
  std::string bs;
  if (a.size() != 1 || !unhex(a[0], bs)) return "bad-op";
  if (bs.empty()) return "ERR:notutf8";   // DecodeUTF8 presumes end > begin; the iterator never calls it so
  // copy to an exactly-sized heap block so ASan sees any over-read
  char *buf = new char[bs.size()];
  memcpy(buf, bs.data(), bs.size());
  std::string out;
  try {
    size_t len = 0;
    char32_t cp = util::DecodeUTF8(buf, buf + bs.size(), &len);
    out = "ok " + std::to_string((uint32_t)cp) + " " + std::to_string(len);
  } catch (const util::NotUTF8Exception &) {
    out = "ERR:notutf8";
  }
  delete[] buf;
  return out;
});

static Reg r_utf8_isutf8("utf8.isutf8", [](const std::vector<std::string> &a) -> std::string {
  // optional second argument: the address of the first byte modulo 8 (word-at-a-time code paths)
  std::string bs;
  if (a.size() < 1 || a.size() > 2 || !unhex(a[0], bs)) return "bad-op";
  size_t al = a.size() == 2 ? strtoul(a[1].c_str(), NULL, 10) % 8 : 0;
  char *buf = new char[bs.size() + 24];
  char *p = buf;
  while (reinterpret_cast<uintptr_t>(p) % 8) ++p;
  p += al;
  memcpy(p, bs.data(), bs.size());
  bool r = util::IsUTF8(util::StringPiece(p, bs.size()));
  delete[] buf;
  return r ? "true" : "false";
});

// utf8.iterhuge <n> <hex>: a text of n bytes (n may exceed 2^32) that begins with the given bytes and continues with NULs, held in
// a lazily committed anonymous mapping; constructs the real DecodeUTF8Iterator on it and reports the first code point and its
// length.  With a third argument "is" it also asks IsUTF8 for the verdict on the whole text when that is cheap to predict
// (an ill-formed front must be rejected) - the full scan of 2^32 NULs is left to the thorough tier ("scan").
static Reg r_utf8_iterhuge("utf8.iterhuge", [](const std::vector<std::string> &a) -> std::string {
  std::string bs;
  if (a.size() < 2 || a.size() > 3 || !unhex(a[1], bs)) return "bad-op";
  unsigned long long n = strtoull(a[0].c_str(), NULL, 10);
  if (n < bs.size() || n == 0) return "bad-op";
  size_t maplen = ((n + 4095) / 4096 + 1) * 4096;
  void *m = mmap(NULL, maplen, PROT_READ | PROT_WRITE, MAP_PRIVATE | MAP_ANONYMOUS | MAP_NORESERVE, -1, 0);
  if (m == MAP_FAILED) return "skipped:mmap";
  char *p = static_cast<char*>(m);
  memcpy(p, bs.data(), bs.size());
  std::string out;
  try {
    util::DecodeUTF8Iterator it(util::StringPiece(p, n));
    out = "ok " + std::to_string((uint32_t)*it) + " " + std::to_string(it.UTF8().size());
  } catch (const util::NotUTF8Exception &) {
    out = "ERR:notutf8";
  }
  if (a.size() == 3 && a[2] == "scan") {
    out += util::IsUTF8(util::StringPiece(p, n)) ? " true" : " false";
  }
  munmap(m, maplen);
  return out;
});

// ---------------------------------------------------------------- base64 (C09)
static Reg r_b64_enc("b64.enc", [](const std::vector<std::string> &a) -> std::string {
  std::string bs, out;
  if (a.size() != 1 || !unhex(a[0], bs)) return "bad-op";
  preprocess::base64_encode(bs, out);
  return "ok " + hex(out);
});

static Reg r_b64_dec("b64.dec", [](const std::vector<std::string> &a) -> std::string {
  std::string bs, out;
  if (a.size() != 1 || !unhex(a[0], bs)) return "bad-op";
  try {
    preprocess::base64_decode(bs, out);
  } catch (const util::Exception &) {
    return "ERR:notb64";
  } catch (const std::length_error &) {
    return "ERR:length";
  }
  return "ok " + hex(out);
});

// ---- texts of 2^31 bytes and more (sizes at which 32-bit counters wrap), held in lazily committed anonymous mappings
// content of the huge plain text: NUL everywhere except a marker byte every 1048573 bytes
static inline unsigned char huge_byte(unsigned long long p) { return p % 1048573ull == 0 ? (unsigned char)((p / 1048573ull) % 251 + 1) : 0; }

// b64.enchuge <n> <off,off,...>: base64_encode of the n-byte text above; reports the output length, the 8 output characters that
// encode input bytes [off, off+6) for every listed off (multiples of 3), and everything from the last complete-or-partial group on
static Reg r_b64_enchuge("b64.enchuge", [](const std::vector<std::string> &a) -> std::string {
  if (a.size() != 2) return "bad-op";
  unsigned long long n = strtoull(a[0].c_str(), NULL, 10);
  if (!n) return "bad-op";
  size_t maplen = ((n + 4095) / 4096 + 1) * 4096;
  void *m = mmap(NULL, maplen, PROT_READ | PROT_WRITE, MAP_PRIVATE | MAP_ANONYMOUS | MAP_NORESERVE, -1, 0);
  if (m == MAP_FAILED) return "skipped:mmap";
  unsigned char *p = static_cast<unsigned char*>(m);
  for (unsigned long long q = 0; q < n; q += 1048573ull) p[q] = huge_byte(q);
  std::string out, res;
  try {
    preprocess::base64_encode(util::StringPiece(reinterpret_cast<const char*>(p), n), out);
    res = "ok len=" + std::to_string(out.size());
    std::istringstream offs(a[1]);
    std::string tok;
    while (std::getline(offs, tok, ',')) {
      unsigned long long o = strtoull(tok.c_str(), NULL, 10), at = o / 3 * 4;
      res += " " + tok + ":" + (at + 8 <= out.size() ? hex(out.substr(at, 8)) : std::string("short"));
    }
    unsigned long long last = (n - 1) / 3 * 4;
    res += " tail:" + (last <= out.size() ? hex(out.substr(last)) : std::string("short"));
  } catch (const std::exception &e) {
    res = std::string("ERR:") + e.what();
  }
  munmap(m, maplen);
  return res;
});

// b64.dechuge <n> <hex prefix without '='>: base64_decode of the prefix followed by NUL bytes up to n bytes in all.  NUL is not a
// base64 character, so the call must fail (theorem decode_rejects_foreign); "ok <size>" means the text was not looked at.
static Reg r_b64_dechuge("b64.dechuge", [](const std::vector<std::string> &a) -> std::string {
  std::string pre;
  if (a.size() != 2 || !unhex(a[1], pre)) return "bad-op";
  unsigned long long n = strtoull(a[0].c_str(), NULL, 10);
  if (n <= pre.size()) return "bad-op";
  size_t maplen = ((n + 4095) / 4096 + 1) * 4096;
  void *m = mmap(NULL, maplen, PROT_READ | PROT_WRITE, MAP_PRIVATE | MAP_ANONYMOUS | MAP_NORESERVE, -1, 0);
  if (m == MAP_FAILED) return "skipped:mmap";
  memcpy(m, pre.data(), pre.size());
  std::string out, res;
  try {
    preprocess::base64_decode(util::StringPiece(static_cast<const char*>(m), n), out);
    res = "ok " + std::to_string(out.size());
  } catch (const util::Exception &) {
    res = "ERR:notb64";
  } catch (const std::length_error &) {
    res = "ERR:length";
  } catch (const std::bad_alloc &) {
    res = "skipped:bad_alloc";
  }
  munmap(m, maplen);
  return res;
});

// b64.decseq <hex> <hex> ...: the documents are decoded one after the other into the SAME std::string, as the tools do
// (base64_number, b64filter, remove_invalid_utf8_base64 keep one buffer for the whole run); one result per document
static Reg r_b64_decseq("b64.decseq", [](const std::vector<std::string> &a) -> std::string {
  std::string out, res;
  for (size_t i = 0; i < a.size(); ++i) {
    std::string bs;
    if (!unhex(a[i], bs)) return "bad-op";
    if (i) res += " ; ";
    try {
      preprocess::base64_decode(bs, out);
      res += "ok " + hex(out);
    } catch (const util::Exception &) {
      res += "ERR:notb64";
    } catch (const std::length_error &) {
      res += "ERR:length";
    }
  }
  return res.empty() ? "-" : res;
});

// ---------------------------------------------------------------- murmur (C14)
#include "util/murmur_hash.hh"
static std::string murmur_op(const std::vector<std::string> &a, bool native) {
  std::string bs;
  if (a.size() != 3 || !unhex(a[1], bs)) return "bad-op";
  uint64_t seed = strtoull(a[0].c_str(), NULL, 10);
  size_t align = strtoul(a[2].c_str(), NULL, 10) & 7;
  // the string ends exactly at the end of the allocation (ASan red zone follows) and starts
  // at address = 16k + align
  size_t total = align + bs.size();
  size_t padded = (total + 15) / 16 * 16;
  size_t lead = padded - total;            // keep (start % 8) == align % 8 ... start = base + lead + align
  lead = lead / 8 * 8;
  char *base = new char[lead + total];
  char *start = base + lead + align;
  memcpy(start, bs.data(), bs.size());
  uint64_t h = native ? util::MurmurHashNative(start, bs.size(), seed) : util::MurmurHash64A(start, bs.size(), seed);
  delete[] base;
  return "ok " + std::to_string(h);
}
static Reg r_murmur_hash("murmur.hash", [](const std::vector<std::string> &a) { return murmur_op(a, false); });
static Reg r_murmur_native("murmur.native", [](const std::vector<std::string> &a) { return murmur_op(a, true); });

// ---------------------------------------------------------------- fields (C10)
#include "preprocess/fields.hh"
static std::string ranges_str(const std::vector<preprocess::FieldRange> &v) {
  if (v.empty()) return "ok -";
  std::string o = "ok ";
  for (size_t i = 0; i < v.size(); ++i) {
    if (i) o += ",";
    o += std::to_string(v[i].begin) + ":" + std::to_string(v[i].end);
  }
  return o;
}
static bool parse_ranges(const std::string &s, std::vector<preprocess::FieldRange> &out) {
  out.clear();
  if (s == "-") return true;
  size_t i = 0;
  while (i < s.size()) {
    size_t c = s.find(':', i);
    if (c == std::string::npos) return false;
    size_t e = s.find(',', c);
    if (e == std::string::npos) e = s.size();
    preprocess::FieldRange f;
    f.begin = strtoul(s.substr(i, c - i).c_str(), NULL, 10);
    f.end = strtoul(s.substr(c + 1, e - c - 1).c_str(), NULL, 10);
    out.push_back(f);
    i = e + 1;
  }
  return true;
}
static Reg r_fields_parse("fields.parse", [](const std::vector<std::string> &a) -> std::string {
  std::string arg;
  if (a.size() != 1 || !unhex(a[0], arg)) return "bad-op";
  std::vector<preprocess::FieldRange> v;
  try { preprocess::ParseFields(arg.c_str(), v); } catch (const util::Exception &) { return "ERR:badfield"; }
  return ranges_str(v);
});
static Reg r_fields_pd("fields.parsedefrag", [](const std::vector<std::string> &a) -> std::string {
  std::string arg;
  if (a.size() != 1 || !unhex(a[0], arg)) return "bad-op";
  std::vector<preprocess::FieldRange> v;
  try { preprocess::ParseFields(arg.c_str(), v); preprocess::DefragmentFields(v); } catch (const util::Exception &) { return "ERR:badfield"; }
  return ranges_str(v);
});
struct RecordCallback {
  std::vector<std::string> pieces;
  void operator()(util::StringPiece p) { pieces.push_back(std::string(p.data(), p.size())); }
};
struct RecordCallbackBool {
  std::vector<std::string> pieces;
  bool operator()(util::StringPiece p) { pieces.push_back(std::string(p.data(), p.size())); return true; }
};
template <class CB> static std::string pieces_str(const CB &cb) {
  std::string o = "ok " + std::to_string(cb.pieces.size());
  for (const std::string &p : cb.pieces) o += " " + hex(p);
  return o;
}
static Reg r_fields_range("fields.range", [](const std::vector<std::string> &a) -> std::string {
  std::string line, d;
  std::vector<preprocess::FieldRange> v;
  if (a.size() != 3 || !unhex(a[0], line) || !unhex(a[1], d) || d.size() != 1 || !parse_ranges(a[2], v)) return "bad-op";
  char *buf = new char[line.size()];          // exact size: any read past the line is an ASan report
  memcpy(buf, line.data(), line.size());
  RecordCallback cb;
  preprocess::RangeFields(util::StringPiece(buf, line.size()), v, d[0], cb);
  std::string o = pieces_str(cb);
  delete[] buf;
  return o;
});
static Reg r_fields_indiv("fields.indiv", [](const std::vector<std::string> &a) -> std::string {
  std::string line, d;
  std::vector<preprocess::FieldRange> v;
  if (a.size() != 3 || !unhex(a[0], line) || !unhex(a[1], d) || d.size() != 1 || !parse_ranges(a[2], v)) return "bad-op";
  char *buf = new char[line.size()];
  memcpy(buf, line.data(), line.size());
  RecordCallbackBool cb;
  preprocess::IndividualFields(util::StringPiece(buf, line.size()), v, d[0], cb);
  std::string o = pieces_str(cb);
  delete[] buf;
  return o;
});

// ---------------------------------------------------------------- hash table (C13)
#include "util/probing_hash_table.hh"
namespace {
struct TEntry {
  typedef uint64_t Key;
  uint64_t key;
  uint64_t value;
  uint64_t GetKey() const { return key; }
  void SetKey(uint64_t to) { key = to; }
};
typedef util::AutoProbing<TEntry, util::IdentityHash> TTable;
}
// table.run <op,op,...> [layout]   op = i:<k>:<v> | f:<k>
// answer per op: i -> t:<storedvalue> | n:<storedvalue> ; f -> <value> | -   ; then "|buckets"
// with "layout" as 2nd arg the final bucket array (keys and values) is appended.
static Reg r_table_run("table.run", [](const std::vector<std::string> &a) -> std::string {
  if (a.size() < 1) return "bad-op";
  TTable t;
  std::string o = "ok";
  std::istringstream is(a[0]);
  std::string op;
  while (std::getline(is, op, ',')) {
    if (op.empty()) continue;
    o += " ";
    if (op[0] == 'n') {
      // AutoProbing::Insert of a key that is not in the table, the value written through the returned iterator (the idiom of
      // the tools after FindOrInsert); the answer is what a fresh Find then reports for the key
      size_t c = op.find(':', 2);
      TEntry e;
      e.key = strtoull(op.substr(2, c - 2).c_str(), NULL, 10);
      e.value = 0;
      TTable::MutableIterator it = t.Insert(e);
      it->value = strtoull(op.substr(c + 1).c_str(), NULL, 10);
      TTable::ConstIterator f;
      o += t.Find(e.key, f) ? "n:" + std::to_string(f->value) : std::string("n:LOST");
    } else if (op[0] == 'i') {
      size_t c = op.find(':', 2);
      TEntry e;
      e.key = strtoull(op.substr(2, c - 2).c_str(), NULL, 10);
      e.value = strtoull(op.substr(c + 1).c_str(), NULL, 10);
      TTable::MutableIterator it;
      bool found = t.FindOrInsert(e, it);
      o += (found ? "t:" : "n:") + std::to_string(it->value);
    } else {
      uint64_t k = strtoull(op.substr(2).c_str(), NULL, 10);
      TTable::ConstIterator it;
      if (t.Find(k, it)) o += std::to_string(it->value); else o += "-";
    }
    o += "|" + std::to_string(t.RawEnd() - t.RawBegin());
  }
  if (a.size() >= 2 && a[1] == "layout") {
    o += " L";
    for (TTable::ConstIterator i = t.RawBegin(); i != t.RawEnd(); ++i) o += " " + std::to_string(i->key) + ":" + std::to_string(i->key ? i->value : 0);
  }
  return o;
});

// table.bulk <n> <seed> <entry 8|16>: insert n distinct scrambled keys (value = insertion number for 16-byte entries),
// and after every growth of the table (and at the end) audit it against the finite map it must equal: every key inserted
// so far is found (with its value), insert-if-absent reports a repeat, and keys never inserted are absent.
namespace {
struct KEntry {              // the 8-byte entry of dedupe / subtract_lines / vocab
  typedef uint64_t Key;
  uint64_t key;
  uint64_t GetKey() const { return key; }
  void SetKey(uint64_t to) { key = to; }
};
inline uint64_t bulk_key(uint64_t i, uint64_t seed) {      // injective (odd multiplier), never 0 for i >= 1
  uint64_t k = (i + 1) * 0x9E3779B97F4A7C15ULL + seed * 2;
  return k ? k : 1;
}
template <class Entry, bool HasValue> std::string bulk_run(uint64_t n, uint64_t seed) {
  typedef util::AutoProbing<Entry, util::IdentityHash> Table;
  Table t;
  size_t buckets = t.RawEnd() - t.RawBegin();
  size_t growths = 0;
  auto audit = [&](uint64_t upto, const char *when) -> std::string {
    // all keys for small tables, a stride sample (always including the oldest and newest) for big ones
    uint64_t stride = upto > 200000 ? upto / 100000 : 1;
    for (uint64_t j = 0; j < upto; j += (j < 64 || j + 64 >= upto) ? 1 : stride) {
      typename Table::ConstIterator it;
      if (!t.Find(bulk_key(j, seed), it)) return std::string("FAIL ") + when + ": key inserted as number " + std::to_string(j) + " of " + std::to_string(upto) + " is reported absent (table of " + std::to_string(t.RawEnd() - t.RawBegin()) + " buckets)";
      if (HasValue && reinterpret_cast<const uint64_t *>(&*it)[sizeof(Entry) / 8 - 1] != j) return std::string("FAIL ") + when + ": key number " + std::to_string(j) + " lost its value";
    }
    for (uint64_t j = 0; j < 64; ++j) {
      typename Table::ConstIterator it;
      if (t.Find(bulk_key(n + 7 + j, seed), it)) return std::string("FAIL ") + when + ": a key that was never inserted is reported present";
    }
    // every bucket is either empty or holds one of the keys inserted so far: as many occupied buckets as keys
    uint64_t occupied = 0;
    for (typename Table::ConstIterator b = t.RawBegin(); b != t.RawEnd(); ++b) if (b->GetKey()) ++occupied;
    if (occupied != upto) return std::string("FAIL ") + when + ": " + std::to_string(occupied) + " occupied buckets for " + std::to_string(upto) + " inserted keys (table of " + std::to_string(t.RawEnd() - t.RawBegin()) + " buckets): buckets hold keys that were never inserted";
    return "";
  };
  for (uint64_t i = 0; i < n; ++i) {
    Entry e;
    e.SetKey(bulk_key(i, seed));
    if (HasValue) reinterpret_cast<uint64_t *>(&e)[sizeof(Entry) / 8 - 1] = i;
    typename Table::MutableIterator it;
    if (t.FindOrInsert(e, it)) return "FAIL insert-if-absent reported key number " + std::to_string(i) + " as already there";
    size_t b = t.RawEnd() - t.RawBegin();
    if (b != buckets) {
      buckets = b; ++growths;
      std::string r = audit(i + 1, "after growth");
      if (!r.empty()) return r;
    }
  }
  std::string r = audit(n, "at the end");
  if (!r.empty()) return r;
  for (uint64_t i = 0; i < n; i += (n > 200000 ? 37 : 1)) {
    Entry e;
    e.SetKey(bulk_key(i, seed));
    typename Table::MutableIterator it;
    if (!t.FindOrInsert(e, it)) return "FAIL insert-if-absent treated repeated key number " + std::to_string(i) + " as new";
  }
  return "ok growths=" + std::to_string(growths) + " buckets=" + std::to_string(buckets) + " bytes=" + std::to_string(buckets * sizeof(Entry));
}
}
// table.bulk <n> <seed> <8|16> [enomem]: with "enomem" every anonymous mapping of 1 MiB or more is refused while the table grows
static Reg r_table_bulk("table.bulk", [](const std::vector<std::string> &a) -> std::string {
  if (a.size() != 3 && !(a.size() == 4 && a[3] == "enomem")) return "bad-op";
  uint64_t n = strtoull(a[0].c_str(), NULL, 10), seed = strtoull(a[1].c_str(), NULL, 10);
  g_fail_big_anon_mmap = a.size() == 4;
  g_failed_mmaps = 0;
  std::string r;
  try {
    r = a[2] == "8" ? bulk_run<KEntry, false>(n, seed) : bulk_run<TEntry, true>(n, seed);
  } catch (const std::exception &e) { r = std::string("ERR:exception ") + e.what(); }
  g_fail_big_anon_mmap = false;
  return a.size() == 4 ? r + " refused_mappings=" + std::to_string(g_failed_mmaps) : r;
});

// ---------------------------------------------------------------- util::Pool (the answer store of cache, the strings of vocab / substitute / idf)
// pool.pages <k>: allocations of 32, 64, ... 32*2^k bytes, each exactly the size of the page the pool opens next, so that the pool opens
// pages 0..k (page j is 32 << j bytes: 2 GiB at j = 26, 4 GiB at j = 27) without any byte being touched; every allocation must succeed and
// the pages must not overlap.   -> ok pages=<k+1> bytes=<sum>
#define private public       // pool.run reads free_list_, current_, current_end_ (the standard headers pool.hh needs are already in)
#include "util/pool.hh"
#undef private
static Reg r_pool_pages("pool.pages", [](const std::vector<std::string> &a) -> std::string {
  if (a.size() != 1) return "bad-op";
  unsigned k = strtoul(a[0].c_str(), NULL, 10);
  if (k > 29) return "bad-op";
  util::Pool pool;
  unsigned long long total = 0;
  uintptr_t prev_begin = 0, prev_end = 0;
  try {
    for (unsigned j = 0; j <= k; ++j) {
      unsigned long long sz = 32ull << j;
      uintptr_t b = reinterpret_cast<uintptr_t>(pool.Allocate(sz));
      if (!b) return "FAIL page " + std::to_string(j) + ": null";
      if (b < prev_end && b + sz > prev_begin) return "FAIL page " + std::to_string(j) + " overlaps page " + std::to_string(j - 1);
      prev_begin = b; prev_end = b + sz;
      total += sz;
    }
  } catch (const std::exception &e) {
    return std::string("FAIL an allocation of ") + std::to_string(32ull << 0) + "*2^j bytes failed after " + std::to_string(total) + " bytes: " + e.what();
  }
  return "ok pages=" + std::to_string(k + 1) + " bytes=" + std::to_string(total);
});

// pool.run <op>...: op = a<size> (Allocate) | c<delta> (Continue on the most recent allocation, delta may be negative).  Every allocation is
// filled with its own byte pattern; a moving Continue must have copied the old bytes; at the end every live allocation must still hold its
// pattern (no two share a byte) -- ASan watches the writes and the memcpy.
//   -> ok <page>:<off>[m] ... | pages=<amount>,... cur=<current_ - base of the last page> intact      (page 0 = the NULL region)
static Reg r_pool_run("pool.run", [](const std::vector<std::string> &a) -> std::string {
  util::Pool pool;
  struct L { uint8_t *p; size_t n; uint8_t pat; };
  std::vector<L> live;
  std::vector<size_t> amounts;
  std::string out = "ok";
  auto where = [&](uint8_t *p) -> std::string {
    if (!p) return "0:0";
    for (size_t j = pool.free_list_.size(); j-- > 0;) {
      uint8_t *b = static_cast<uint8_t*>(pool.free_list_[j]);
      if (p >= b && p <= b + amounts[j]) return std::to_string(j + 1) + ":" + std::to_string(p - b);
    }
    return "?:?";
  };
  auto note_pages = [&]() {
    while (amounts.size() < pool.free_list_.size()) amounts.push_back(pool.current_end_ - static_cast<uint8_t*>(pool.free_list_.back()));
  };
  uint8_t next_pat = 1;
  try {
    for (const std::string &o : a) {
      if (o.size() < 2) return "bad-op";
      if (o[0] == 'a') {
        size_t n = strtoull(o.c_str() + 1, NULL, 10);
        uint8_t *p = static_cast<uint8_t*>(pool.Allocate(n));
        note_pages();
        L l = {p, n, next_pat++};
        if (n) memset(p, l.pat, n);
        live.push_back(l);
        out += " " + where(p);
      } else if (o[0] == 'c') {
        long long d = strtoll(o.c_str() + 1, NULL, 10);
        if (live.empty() || (long long)live.back().n + d < 0) return "bad-op";
        L &l = live.back();
        void *base = l.p;
        bool moved = pool.Continue(base, d);
        note_pages();
        size_t nn = l.n + d, keep = nn < l.n ? nn : l.n;
        uint8_t *np = static_cast<uint8_t*>(base);
        for (size_t i = 0; i < keep; ++i) if (np[i] != l.pat) return out + " FAIL Continue lost byte " + std::to_string(i) + " of the allocation";
        if (moved != (np != l.p)) return out + " FAIL Continue returned " + std::to_string(moved) + " but base " + (np != l.p ? "changed" : "did not change");
        l.p = np; l.n = nn;
        if (nn) memset(np, l.pat, nn);
        out += " " + where(np) + (moved ? "m" : "");
      } else return "bad-op";
    }
  } catch (const std::exception &e) { return out + " ERR:exception " + e.what(); }
  for (size_t k = 0; k < live.size(); ++k)
    for (size_t i = 0; i < live[k].n; ++i)
      if (live[k].p[i] != live[k].pat) return out + " FAIL allocation " + std::to_string(k) + " was overwritten at byte " + std::to_string(i);
  out += " | pages=";
  for (size_t j = 0; j < amounts.size(); ++j) out += (j ? "," : "") + std::to_string(amounts[j]);
  if (amounts.empty()) out += "-";
  out += " cur=" + std::to_string(pool.free_list_.empty() ? 0 : pool.current_ - static_cast<uint8_t*>(pool.free_list_.back())) + " intact";
  return out;
});

// ---------------------------------------------------------------- util::MutableVocab (train_case / apply_case / truecase word ids)
// mvocab.run <hexword> ...: FindOrInsert every word in order, then Find every word again.
//   -> ok <id>... | <id>... size=<Size()>        (ids as the vocabulary hands them out; 0 is <unk>)
#include "util/mutable_vocab.hh"
static Reg r_mvocab("mvocab.run", [](const std::vector<std::string> &a) -> std::string {
  util::MutableVocab v;
  std::vector<std::string> words(a.size());
  for (size_t i = 0; i < a.size(); ++i) if (!unhex(a[i], words[i])) return "bad-op";
  std::string out = "ok";
  for (const std::string &w : words) out += " " + std::to_string(v.FindOrInsert(w));
  out += " |";
  for (const std::string &w : words) out += " " + std::to_string(v.Find(w));
  return out + " size=" + std::to_string(v.Size());
});

int main() { return pv::main_loop(); }
