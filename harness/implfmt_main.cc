// Implementation-side driver for the number formatters behind FakeOStream (C20).
#include "proto.hh"
#include "util/integer_to_string.hh"
#include "util/float_to_string.hh"
#include "util/file_stream.hh"
#include "util/double-conversion/double-conversion.h"
#include <cstring>
#include <cmath>
#include <fcntl.h>
using namespace pv;

template <class T> static std::string measure(T value, unsigned kbytes, std::string &text) {
  // two passes with different sentinels: the extent of bytes that differ from the sentinel in either pass
  size_t extent = 0;
  for (unsigned char sentinel : {0xAA, 0x55}) {
    char buf[96];
    memset(buf, sentinel, sizeof buf);
    char *end = util::ToString(value, buf + 16);
    text.assign(buf + 16, end);
    for (size_t i = 0; i < 16; ++i) if ((unsigned char)buf[i] != sentinel) return "ERR:underflow";
    for (size_t i = 16; i < sizeof buf; ++i) if ((unsigned char)buf[i] != sentinel && i - 16 + 1 > extent) extent = i - 16 + 1;
  }
  return "ok " + hex(text) + " " + std::to_string(extent) + " " + std::to_string(kbytes);
}

#define INT_OP(NAME, TYPE, PARSE) \
  static Reg r_##NAME("fmt." #NAME, [](const std::vector<std::string> &a) -> std::string { \
    if (a.size() != 1) return "bad-op"; \
    std::string t; \
    return measure<TYPE>((TYPE)PARSE(a[0].c_str(), NULL, 10), util::ToStringBuf<TYPE>::kBytes, t); \
  });
INT_OP(u16, uint16_t, strtoull)
INT_OP(u32, uint32_t, strtoull)
INT_OP(u64, uint64_t, strtoull)
INT_OP(i16, int16_t, strtoll)
INT_OP(i32, int32_t, strtoll)
INT_OP(i64, int64_t, strtoll)

static Reg r_ptr("fmt.ptr", [](const std::vector<std::string> &a) -> std::string {
  if (a.size() != 1) return "bad-op";
  std::string t;
  return measure<const void *>((const void *)strtoull(a[0].c_str(), NULL, 10), util::ToStringBuf<const void *>::kBytes, t);
});

template <class F> static std::string float_op(const std::vector<std::string> &a, bool single) {
  std::string raw;
  if (a.size() != 1 || !unhex(a[0], raw) || raw.size() != sizeof(F)) return "bad-op";
  F v;
  memcpy(&v, raw.data(), sizeof(F));
  std::string t;
  std::string r = measure<F>(v, util::ToStringBuf<F>::kBytes, t);
  // what double-conversion hands to the representation code
  const char *kind = "num";
  bool sign = false;
  int length = 0, point = 0;
  if (std::isnan(v)) kind = "nan";
  else if (std::isinf(v)) { kind = "inf"; sign = v < 0; }
  else {
    char digits[32];
    double_conversion::DoubleToStringConverter::DoubleToAscii(v, single ? double_conversion::DoubleToStringConverter::SHORTEST_SINGLE : double_conversion::DoubleToStringConverter::SHORTEST,
                                                             0, digits, sizeof digits, &sign, &length, &point);
    if (v == 0) sign = std::signbit(v);
  }
  return r + " " + kind + " " + (sign ? "1" : "0") + " " + std::to_string(length) + " " + std::to_string(point);
}
static Reg r_dbl("fmt.double", [](const std::vector<std::string> &a) { return float_op<double>(a, false); });
static Reg r_flt("fmt.float", [](const std::vector<std::string> &a) { return float_op<float>(a, true); });

// fmt.stream <off> <hex double>: a FileStream whose buffer has exactly <off> bytes left, then << double (ASan watches the heap buffer)
static Reg r_stream("fmt.stream", [](const std::vector<std::string> &a) -> std::string {
  std::string raw;
  if (a.size() != 2 || !unhex(a[1], raw) || raw.size() != 8) return "bad-op";
  double v;
  memcpy(&v, raw.data(), 8);
  size_t off = strtoul(a[0].c_str(), NULL, 10);
  int fd = open("/dev/null", O_WRONLY);
  {
    util::FileStream out(fd);
    std::string filler(8192 - off, 'x');
    out << filler;
    out << v;
  }
  return "ok - 0 0";
});

int main() { return pv::main_loop(); }
