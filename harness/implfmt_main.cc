// Implementation-side driver for the number formatters behind FakeOStream (C20).
#include "proto.hh"
#include <vector>
#include <sstream>
#include "util/buffered_stream.hh"
#include "util/integer_to_string.hh"
#include "util/float_to_string.hh"
#include "util/file_stream.hh"
#include "util/double-conversion/double-conversion.h"
#include <cstring>
#include <cmath>
#include <fcntl.h>
using namespace pv;

template <class T> static std::string measure(T value, unsigned kbytes, std::string &text) {
  // two passes with different sentinels: the extent of bytes that differ from the sentinel in either pass
  size_t extent = 0;
  for (unsigned char sentinel : {0xAA, 0x55}) {
    char buf[96];
    memset(buf, sentinel, sizeof buf);
    char *end = util::ToString(value, buf + 16);
    text.assign(buf + 16, end);
    for (size_t i = 0; i < 16; ++i) if ((unsigned char)buf[i] != sentinel) return "ERR:underflow";
    for (size_t i = 16; i < sizeof buf; ++i) if ((unsigned char)buf[i] != sentinel && i - 16 + 1 > extent) extent = i - 16 + 1;
  }
  return "ok " + hex(text) + " " + std::to_string(extent) + " " + std::to_string(kbytes);
}

#define INT_OP(NAME, TYPE, PARSE) \
  static Reg r_##NAME("fmt." #NAME, [](const std::vector<std::string> &a) -> std::string { \
    if (a.size() != 1) return "bad-op"; \
    std::string t; \
    return measure<TYPE>((TYPE)PARSE(a[0].c_str(), NULL, 10), util::ToStringBuf<TYPE>::kBytes, t); \
  });
INT_OP(u16, uint16_t, strtoull)
INT_OP(u32, uint32_t, strtoull)
INT_OP(u64, uint64_t, strtoull)
INT_OP(i16, int16_t, strtoll)
INT_OP(i32, int32_t, strtoll)
INT_OP(i64, int64_t, strtoll)

static Reg r_ptr("fmt.ptr", [](const std::vector<std::string> &a) -> std::string {
  if (a.size() != 1) return "bad-op";
  std::string t;
  return measure<const void *>((const void *)strtoull(a[0].c_str(), NULL, 10), util::ToStringBuf<const void *>::kBytes, t);
});

template <class F> static std::string float_op(const std::vector<std::string> &a, bool single) {
  std::string raw;
  if (a.size() != 1 || !unhex(a[0], raw) || raw.size() != sizeof(F)) return "bad-op";
  F v;
  memcpy(&v, raw.data(), sizeof(F));
  std::string t;
  std::string r = measure<F>(v, util::ToStringBuf<F>::kBytes, t);
  // what double-conversion hands to the representation code
  const char *kind = "num";
  bool sign = false;
  int length = 0, point = 0;
  if (std::isnan(v)) kind = "nan";
  else if (std::isinf(v)) { kind = "inf"; sign = v < 0; }
  else {
    char digits[32];
    double_conversion::DoubleToStringConverter::DoubleToAscii(v, single ? double_conversion::DoubleToStringConverter::SHORTEST_SINGLE : double_conversion::DoubleToStringConverter::SHORTEST,
                                                             0, digits, sizeof digits, &sign, &length, &point);
    if (v == 0) sign = std::signbit(v);
  }
  return r + " " + kind + " " + (sign ? "1" : "0") + " " + std::to_string(length) + " " + std::to_string(point);
}
static Reg r_dbl("fmt.double", [](const std::vector<std::string> &a) { return float_op<double>(a, false); });
static Reg r_flt("fmt.float", [](const std::vector<std::string> &a) { return float_op<float>(a, true); });

// fmt.stream <off> <hex double>: a FileStream whose buffer has exactly <off> bytes left, then << double (ASan watches the heap buffer)
static Reg r_stream("fmt.stream", [](const std::vector<std::string> &a) -> std::string {
  std::string raw;
  if (a.size() != 2 || !unhex(a[1], raw) || raw.size() != 8) return "bad-op";
  double v;
  memcpy(&v, raw.data(), 8);
  size_t off = strtoul(a[0].c_str(), NULL, 10);
  int fd = open("/dev/null", O_WRONLY);
  {
    util::FileStream out(fd);
    std::string filler(8192 - off, 'x');
    out << filler;
    out << v;
  }
  return "ok - 0 0";
});

// bstream.run <tokens>: the real util::BufferedStream over a Writer that records what it is given.
// tokens: w<n> = write() of n bytes (pattern v++ % 251), u<d> = operator<< of the d-digit number 10^(d-1),
// c = operator<< of 'x', f = flush(); then the stream is destroyed.  -> ok <chunk sizes csv|-> <Writer::flush calls> bytes-ok|BYTES-DIFFER
namespace {
struct RecordingWriter {
  RecordingWriter(std::vector<size_t> *sizes, std::string *content, size_t *flushes) : sizes_(sizes), content_(content), flushes_(flushes) {}
  void write(const void *data, size_t amount) { sizes_->push_back(amount); content_->append(static_cast<const char *>(data), amount); }
  void flush() { ++*flushes_; }
  std::vector<size_t> *sizes_; std::string *content_; size_t *flushes_;
};
}
static Reg r_bstream("bstream.run", [](const std::vector<std::string> &a) -> std::string {
  if (a.size() != 1) return "bad-op";
  std::vector<std::string> toks;
  if (a[0] != "-") { std::istringstream is(a[0]); std::string t; while (std::getline(is, t, ',')) if (!t.empty()) toks.push_back(t); }
  std::vector<size_t> sizes; std::string content, want; size_t flushes = 0;
  auto number = [](const std::string &t) { int d = atoi(t.c_str() + 1); if (d < 1) d = 1; if (d > 20) d = 20; uint64_t v = 1; for (int i = 1; i < d; ++i) v *= 10; return v; };
  unsigned char v = 0;
  {
    util::BufferedStream<RecordingWriter> out(&sizes, &content, &flushes);
    for (const std::string &t : toks) {
      if (t[0] == 'u') { out << number(t); want += std::to_string(number(t)); }
      else if (t[0] == 'c') { out << 'x'; want.push_back('x'); }
      else if (t[0] == 'f') out.flush();
      else if (t[0] == 'w') {
        std::string chunk((size_t)strtoul(t.c_str() + 1, NULL, 10), 0);
        for (char &c : chunk) c = (char)(v++ % 251);
        out.write(chunk.data(), chunk.size());
        want += chunk;
      } else return "bad-op";
    }
  }
  std::string o = "ok ";
  if (sizes.empty()) o += "-";
  for (size_t i = 0; i < sizes.size(); ++i) { if (i) o += ","; o += std::to_string(sizes[i]); }
  return o + " " + std::to_string(flushes) + " " + (content == want ? "bytes-ok" : "BYTES-DIFFER");
});

int main() { return pv::main_loop(); }
