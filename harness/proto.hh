// Line protocol shared by the implementation-side drivers.  One op per line, bytes hex
// encoded ("-" = empty), one canonical line out.
#pragma once
#include <string>
#include <vector>
#include <sstream>
#include <iostream>
#include <functional>
#include <map>
#include <cstdint>
#include <cstdio>

namespace pv {

inline int hexval(char c) {
  if (c >= '0' && c <= '9') return c - '0';
  if (c >= 'a' && c <= 'f') return c - 'a' + 10;
  if (c >= 'A' && c <= 'F') return c - 'A' + 10;
  return -1;
}

inline bool unhex(const std::string &s, std::string &out) {
  out.clear();
  if (s == "-") return true;
  if (s.size() % 2) return false;
  for (size_t i = 0; i < s.size(); i += 2) {
    int a = hexval(s[i]), b = hexval(s[i + 1]);
    if (a < 0 || b < 0) return false;
    out.push_back(char(a * 16 + b));
  }
  return true;
}

inline std::string hex(const std::string &s) {
  if (s.empty()) return "-";
  static const char *d = "0123456789abcdef";
  std::string o;
  o.reserve(s.size() * 2);
  for (unsigned char c : s) { o.push_back(d[c >> 4]); o.push_back(d[c & 15]); }
  return o;
}

inline std::vector<std::string> words(const std::string &line) {
  std::vector<std::string> w;
  std::istringstream is(line);
  std::string t;
  while (is >> t) w.push_back(t);
  return w;
}

typedef std::function<std::string(const std::vector<std::string> &)> Op;

inline std::map<std::string, Op> &registry() {
  static std::map<std::string, Op> r;
  return r;
}

struct Reg {
  Reg(const char *name, Op op) { registry()[name] = op; }
};

inline int main_loop() {
  std::string line;
  std::ios::sync_with_stdio(false);
  while (std::getline(std::cin, line)) {
    std::vector<std::string> w = words(line);
    std::string out = "bad-op";
    if (!w.empty()) {
      auto it = registry().find(w[0]);
      if (it != registry().end()) {
        std::vector<std::string> args(w.begin() + 1, w.end());
        try {
          out = it->second(args);
        } catch (const std::exception &e) {
          out = std::string("ERR:exception");
        }
      }
    }
    std::cout << out << '\n';
    std::cout.flush();   // a sanitizer abort on the next op must not lose this line
  }
  return 0;
}

} // namespace pv
