#!/usr/bin/env python3
"""with_decoy.py <program> [args...]: fork a child that exits 0 at once, wait until it is a zombie (without reaping
it), then exec the program.  The program thus starts with an unrelated, already terminated child process, the way a
command run by a shell after a process substitution or an earlier background job does (children survive execve)."""
import os, sys

pid = os.fork()
if pid == 0:
    os._exit(0)
os.waitid(os.P_PID, pid, os.WEXITED | os.WNOWAIT)
os.execv(sys.argv[1], sys.argv[1:])
