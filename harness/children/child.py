#!/usr/bin/env python3
"""Scripted line-to-line children for the wrapper tools (C04, C05, C11).
usage: child.py <policy> [args]
  eager                      answer each line immediately (flush per line)
  block <n>                  answer in blocks of n lines
  readall                    read everything first, then answer
  die <k> exit <c>           answer k lines (flushed), then exit with code c
  die <k> sig <s>            answer k lines (flushed), then kill self with signal s
  afterall exit <c>          answer everything, then exit c
  log <path> <policy...>     additionally append every line read to <path>
transform: identity unless PV_CHILD_FN=upper|prefix|rev
"""
import os, signal, sys


def fn(line):
    f = os.environ.get("PV_CHILD_FN", "id")
    if f == "upper":
        return line.upper()
    if f == "prefix":
        return b"X" + line
    if f == "rev":
        return line[::-1]
    return line


def main():
    a = sys.argv[1:]
    log = None
    if a and a[0] == "log":
        log = open(a[1], "ab", buffering=0)
        a = a[2:]
    inp, out = sys.stdin.buffer, sys.stdout.buffer
    pol = a[0] if a else "eager"

    def lines():
        for l in inp:
            if log:
                log.write(l)
            yield l[:-1] if l.endswith(b"\n") else l

    if pol == "eager":
        for l in lines():
            out.write(fn(l) + b"\n")
            out.flush()
    elif pol == "block":
        n = int(a[1])
        buf = []
        for l in lines():
            buf.append(fn(l) + b"\n")
            if len(buf) >= n:
                out.write(b"".join(buf)); out.flush(); buf = []
        out.write(b"".join(buf)); out.flush()
    elif pol == "readall":
        ls = list(lines())
        out.write(b"".join(fn(l) + b"\n" for l in ls)); out.flush()
    elif pol == "die":
        k = int(a[1])
        n = 0
        it = lines()
        while n < k:
            try:
                l = next(it)
            except StopIteration:
                break
            out.write(fn(l) + b"\n"); out.flush(); n += 1
        if a[2] == "exit":
            out.flush()
            os._exit(int(a[3]))
        else:
            out.flush()
            os.kill(os.getpid(), int(a[3]))
            os._exit(99)
    elif pol == "afterall":
        for l in lines():
            out.write(fn(l) + b"\n"); out.flush()
        out.flush()
        if a[1] == "sig":
            os.kill(os.getpid(), int(a[2]))
            os._exit(99)
        os._exit(int(a[2]))


if __name__ == "__main__":
    try:
        main()
    except BrokenPipeError:
        os._exit(141)
