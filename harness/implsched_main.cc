// Controlled scheduler for the real queue templates (C16).
// util::Semaphore (built with -DPREPROCESS_VERIF) delegates to the pv_sem_* functions defined here; the
// controller lets exactly one thread run at a time and decides at every semaphore operation (and at thread
// start / join) which pending thread goes next, following a choice script.  One scenario per process:
//
//   implsched pcq <cap> <items per producer, comma separated> <quota per consumer, comma separated> <choices>
//   implsched usq <n items> <choices>
//   implsched ring <write sizes, comma separated or -> <choices>
//
// <choices> = comma separated indices into the sorted list of enabled threads at each decision ("-" = none);
// when the script is exhausted index 0 is taken (or a seeded random choice with "r<seed>" as the last element).
// Output: one line  "trace <thread>:<op>:<sem> ..."  one line "branch <n enabled at each decision> ..." and the
// scenario's result line ("result ...").  A state where nothing is enabled but threads remain prints "DEADLOCK".
#include "util/pcqueue.hh"
#include "util/threaded_buffered_stream.hh"
#include <condition_variable>
#include <mutex>
#include <thread>
#include <vector>
#include <map>
#include <string>
#include <sstream>
#include <iostream>
#include <functional>
#include <algorithm>
#include <chrono>
#include <cstring>
#include <dlfcn.h>
#include <pthread.h>

namespace {

enum OpKind { OP_START, OP_WAIT, OP_POST, OP_JOIN, OP_CONT, OP_UNLOCK };

struct Th {
  int id;
  std::thread::id tid;
  enum { RUNNING, PENDING, FINISHED } st;
  OpKind op;
  void *sem;
  bool go;
  std::condition_variable cv;
};

std::mutex g_mu;
std::condition_variable g_ctl;
std::vector<Th *> g_threads;
std::map<void *, int> g_sem_id;
std::vector<long> g_sem_count;
bool g_on = false;
char *g_obj_begin = NULL, *g_obj_end = NULL;   // the object under test: unlocking a mutex inside it is a scheduling point
std::vector<std::string> g_trace;
std::vector<int> g_branch;
std::vector<int> g_choices;
size_t g_choice_pos = 0;
unsigned long long g_rng = 0;
bool g_random = false;
int g_policy = 0;   // after the script: 0 = first enabled thread, 1 = last enabled thread ("hi"), 2 = alternate ("alt")
unsigned g_step = 0;
int g_expected = 0;
bool g_deadlock = false;

Th *self_locked() {
  std::thread::id me = std::this_thread::get_id();
  for (Th *t : g_threads) if (t->tid == me) return t;
  Th *t = new Th();
  t->id = (int)g_threads.size();
  t->tid = me;
  t->st = Th::RUNNING;
  t->go = false;
  g_threads.push_back(t);
  return t;
}

// called by a thread at a scheduling point; returns when the controller grants the operation
void yield_op(OpKind op, void *sem) {
  std::unique_lock<std::mutex> lk(g_mu);
  Th *t = self_locked();
  t->op = op;
  t->sem = sem;
  t->st = Th::PENDING;
  g_ctl.notify_all();
  t->cv.wait(lk, [t] { return t->go; });
  t->go = false;
}

void finish_self() {
  std::unique_lock<std::mutex> lk(g_mu);
  Th *t = self_locked();
  t->st = Th::FINISHED;
  g_ctl.notify_all();
}

} // namespace

extern "C" {
int pv_sem_init(void *sem, unsigned int value) {
  std::unique_lock<std::mutex> lk(g_mu);
  if (!g_on) return 0;
  g_sem_id[sem] = (int)g_sem_count.size();
  g_sem_count.push_back(value);
  return 1;
}
// After the operation itself has been granted and performed the thread yields once more ("cont"), so that other
// threads can be scheduled between the semaphore operation and the code that follows it.
int pv_sem_wait(void *sem) {
  { std::unique_lock<std::mutex> lk(g_mu); if (!g_on || !g_sem_id.count(sem)) return 0; }
  yield_op(OP_WAIT, sem);
  yield_op(OP_CONT, sem);
  return 1;
}
int pv_sem_post(void *sem) {
  { std::unique_lock<std::mutex> lk(g_mu); if (!g_on || !g_sem_id.count(sem)) return 0; }
  yield_op(OP_POST, sem);
  yield_op(OP_CONT, sem);
  return 1;
}
// std::mutex::unlock -> pthread_mutex_unlock: after a mutex that lives inside the object under test has been released
// the thread yields ("unlock"), so that other threads can run between the end of a critical section and the code
// that follows it.  No thread is ever parked while holding such a mutex.
int pthread_mutex_unlock(pthread_mutex_t *m) {
  typedef int (*fn_t)(pthread_mutex_t *);
  static fn_t real = (fn_t)dlsym(RTLD_NEXT, "pthread_mutex_unlock");
  int r = real(m);
  char *a = reinterpret_cast<char *>(m);
  if (g_obj_begin && a >= g_obj_begin && a < g_obj_end) yield_op(OP_UNLOCK, NULL);
  return r;
}
void pv_thread_begin(void) {
  std::unique_lock<std::mutex> lk(g_mu);
  if (!g_on) return;
  self_locked();            // registers as RUNNING; it blocks at its first semaphore operation
  g_ctl.notify_all();
}
void pv_thread_end(void) { if (g_on) finish_self(); }
void pv_thread_join(void) { if (g_on) yield_op(OP_JOIN, NULL); }
}

namespace {

std::vector<std::thread> g_spawned;

void pv_spawn(std::function<void()> fn) {
  // the id is fixed here, in spawn order, not by which thread happens to start first
  Th *t = new Th();
  {
    std::unique_lock<std::mutex> lk(g_mu);
    t->id = (int)g_threads.size();
    t->st = Th::RUNNING;
    t->go = false;
    g_threads.push_back(t);
  }
  g_spawned.emplace_back([fn, t]() {
    { std::unique_lock<std::mutex> lk(g_mu); t->tid = std::this_thread::get_id(); }
    yield_op(OP_START, NULL);
    fn();
    finish_self();
  });
}

// block (as a RUNNING thread) until n threads are registered
void pv_expect(int n) {
  std::unique_lock<std::mutex> lk(g_mu);
  g_ctl.wait(lk, [n] { return (int)g_threads.size() >= n; });
}

const char *opname(OpKind k) { return k == OP_START ? "start" : k == OP_WAIT ? "wait" : k == OP_POST ? "post" : k == OP_CONT ? "cont" : k == OP_UNLOCK ? "unlock" : "join"; }

void controller() {
  std::unique_lock<std::mutex> lk(g_mu);
  while (true) {
    bool ok = g_ctl.wait_for(lk, std::chrono::seconds(20), [] {
      if ((int)g_threads.size() < g_expected) return false;
      for (Th *t : g_threads) if (t->st == Th::RUNNING) return false;
      return true;
    });
    if (!ok) { g_trace.push_back("STALL"); g_deadlock = true; return; }
    std::vector<Th *> enabled;
    bool all_finished = true;
    for (Th *t : g_threads) {
      if (t->st == Th::FINISHED) continue;
      all_finished = false;
      bool en = false;
      switch (t->op) {
        case OP_START: en = true; break;
        case OP_POST: en = true; break;
        case OP_CONT: en = true; break;
        case OP_UNLOCK: en = true; break;
        case OP_WAIT: en = g_sem_count[g_sem_id[t->sem]] > 0; break;
        case OP_JOIN: {
          en = true;
          for (Th *o : g_threads) if (o != t && o->st != Th::FINISHED && o->op != OP_JOIN) en = false;   // everything else has ended
          break;
        }
      }
      if (en) enabled.push_back(t);
    }
    if (all_finished) return;
    if (enabled.empty()) { g_trace.push_back("DEADLOCK"); g_deadlock = true; return; }
    size_t pick = 0;
    if (enabled.size() > 1) {
      g_branch.push_back((int)enabled.size());
      if (g_choice_pos < g_choices.size()) pick = (size_t)g_choices[g_choice_pos++] % enabled.size();
      else if (g_random) { g_rng = g_rng * 6364136223846793005ULL + 1442695040888963407ULL; pick = (size_t)((g_rng >> 33) % enabled.size()); }
      else if (g_policy == 1) pick = enabled.size() - 1;
      else if (g_policy == 2) pick = (g_step++) % enabled.size();
    }
    Th *t = enabled[pick];
    if (t->op == OP_WAIT) --g_sem_count[g_sem_id[t->sem]];
    if (t->op == OP_POST) ++g_sem_count[g_sem_id[t->sem]];
    g_trace.push_back(std::to_string(t->id) + ":" + opname(t->op) + ":" + (t->sem ? std::to_string(g_sem_id[t->sem]) : std::string("-")));
    t->st = Th::RUNNING;
    t->go = true;
    t->cv.notify_all();
  }
}

std::vector<long> csv(const std::string &s) {
  std::vector<long> v;
  if (s == "-") return v;
  std::istringstream is(s);
  std::string t;
  while (std::getline(is, t, ',')) if (!t.empty()) v.push_back(strtol(t.c_str(), NULL, 10));
  return v;
}

void parse_choices(const std::string &s) {
  if (s == "-") return;
  std::istringstream is(s);
  std::string t;
  while (std::getline(is, t, ',')) {
    if (t.empty()) continue;
    if (t == "hi") g_policy = 1;
    else if (t == "alt") g_policy = 2;
    else if (t[0] == 'r') { g_random = true; g_rng = strtoull(t.c_str() + 1, NULL, 10) * 2654435761ULL + 1; }
    else g_choices.push_back(atoi(t.c_str()));
  }
}

struct CollectWriter {
  explicit CollectWriter(std::string *to) : to_(to) {}
  void write(const void *data, size_t amount) { to_->append(static_cast<const char *>(data), amount); }
  void flush() {}
  std::string *to_;
};

void finish(const std::string &result) {
  for (std::thread &t : g_spawned) if (!g_deadlock) t.join();
  std::cout << "trace";
  for (const std::string &e : g_trace) std::cout << ' ' << e;
  std::cout << "\nbranch";
  for (int b : g_branch) std::cout << ' ' << b;
  std::cout << "\nresult " << result << std::endl;
  if (g_deadlock) _exit(3);     // threads are parked; do not run destructors
}

} // namespace

int main(int argc, char **argv) {
  if (argc < 3) return 2;
  std::string kind = argv[1];
  g_on = true;
  if ((kind == "pcq" || kind == "pcqs") && argc == 6) {
    const bool use_swap = kind == "pcqs";
    size_t cap = strtoul(argv[2], NULL, 10);
    std::vector<long> items = csv(argv[3]), quotas = csv(argv[4]);
    parse_choices(argv[5]);
    util::PCQueue<int> queue(cap);                 // semaphores 0 = empty_, 1 = used_
    g_obj_begin = reinterpret_cast<char *>(&queue);
    g_obj_end = g_obj_begin + sizeof(queue);
    std::vector<std::vector<int> > got(quotas.size());
    g_expected = (int)(items.size() + quotas.size());
    for (size_t i = 0; i < items.size(); ++i)
      pv_spawn([&queue, &items, i, use_swap]() {
        for (long k = 0; k < items[i]; ++k) {
          int v = (int)(i * 1000 + k);
          if (use_swap) queue.ProduceSwap(v); else queue.Produce(v);
        }
      });
    for (size_t j = 0; j < quotas.size(); ++j)
      pv_spawn([&queue, &quotas, &got, j]() { for (long k = 0; k < quotas[j]; ++k) { int v; queue.Consume(v); got[j].push_back(v); } });
    controller();
    std::string r;
    for (size_t j = 0; j < got.size(); ++j) { r += (j ? " | " : ""); for (int v : got[j]) r += std::to_string(v) + " "; }
    finish(r);
  } else if (kind == "usq" && argc == 4) {
    long n = strtol(argv[2], NULL, 10);
    parse_choices(argv[3]);
    util::UnboundedSingleQueue<int> queue;         // semaphore 0 = valid_
    std::vector<int> got;
    g_expected = 2;
    pv_spawn([&queue, n]() { for (long k = 0; k < n; ++k) queue.Produce((int)k); });
    pv_spawn([&queue, &got, n]() { for (long k = 0; k < n; ++k) { int v; queue.Consume(v); got.push_back(v); } });
    controller();
    bool ok = (long)got.size() == n;
    for (long k = 0; ok && k < n; ++k) ok = got[k] == k;
    finish(std::string(ok ? "fifo-ok " : "FIFO-BROKEN ") + std::to_string(got.size()));
  } else if (kind == "ring" && argc == 4) {
    // tokens: <n> = write() of n bytes; u<d> = operator<< of a d-digit uint64_t (Ensure(kToStringMaxBytes) may hand a
    // short block over); c = operator<< of one char
    std::vector<std::string> toks;
    if (std::string(argv[2]) != "-") { std::istringstream is(argv[2]); std::string t; while (std::getline(is, t, ',')) if (!t.empty()) toks.push_back(t); }
    parse_choices(argv[3]);
    std::string file;
    g_expected = 1;
    auto number = [](const std::string &t) { int d = atoi(t.c_str() + 1); if (d < 1) d = 1; if (d > 20) d = 20; uint64_t v = 1; for (int i = 1; i < d; ++i) v *= 10; return v; };
    pv_spawn([&toks, &file, &number]() {
      unsigned char v = 0;
      {
        util::ThreadedBufferedStream<CollectWriter> out(&file);   // semaphores 0 = output_, 1 = trash_
        pv_expect(2);                                             // the writer thread has announced itself
        for (const std::string &t : toks) {
          if (t[0] == 'u') { out << number(t); }
          else if (t[0] == 'c') { out << 'x'; }
          else {
            std::string chunk((size_t)strtol(t.c_str(), NULL, 10), 0);
            for (char &c : chunk) c = (char)(v++ % 251);
            out.write(chunk.data(), chunk.size());
          }
        }
      }
    });
    controller();
    // expected contents
    std::string want;
    unsigned char v = 0;
    for (const std::string &t : toks) {
      if (t[0] == 'u') want += std::to_string(number(t));
      else if (t[0] == 'c') want.push_back('x');
      else for (long k = 0, n = strtol(t.c_str(), NULL, 10); k < n; ++k) want.push_back((char)(v++ % 251));
    }
    size_t diff = 0;
    while (diff < file.size() && diff < want.size() && file[diff] == want[diff]) ++diff;
    finish(std::string(file == want ? "bytes-ok " : "BYTES-DIFFER ") + std::to_string(file.size()) + (file == want ? "" : " want " + std::to_string(want.size()) + " first-difference-at " + std::to_string(diff)));
  } else return 2;
  return 0;
}
