// Implementation-side driver for C16 with the REAL util::Semaphore (no scheduler hooks installed): the queues are run while
// a signal whose handler was installed WITHOUT SA_RESTART is delivered again and again to the threads that sit in
// sem_wait(), so that the kernel makes sem_wait() fail with EINTR.  An interrupted wait is not an acquisition: the consumer
// must still receive every item exactly once and in order.  (The controlled scheduler of implsched replaces the semaphore
// through the pv_sem_* hooks and therefore never executes the lines of Semaphore::wait() that deal with EINTR; this driver
// validates the assumption "util::Semaphore is a counting semaphore" that the LTS proofs rest on.)
#include "proto.hh"
#include "util/pcqueue.hh"
#include <atomic>
#include <chrono>
#include <csignal>
#include <cstdint>
#include <cstdlib>
#include <pthread.h>
#include <thread>
#include <unistd.h>

using namespace pv;

namespace {
std::atomic<unsigned long> g_signals(0);
void on_usr1(int) { g_signals.fetch_add(1, std::memory_order_relaxed); }

void install() {
  struct sigaction sa;
  memset(&sa, 0, sizeof(sa));
  sa.sa_handler = on_usr1;
  sa.sa_flags = 0;            // no SA_RESTART: sem_wait returns -1/EINTR
  sigemptyset(&sa.sa_mask);
  sigaction(SIGUSR1, &sa, NULL);
}

struct Result {
  std::atomic<bool> prod_done{false}, cons_done{false};
  uint64_t received = 0, first_bad = 0, got = 0, want = 0;
  bool bad = false;
};

// xorshift for the pauses that make each side block in turn
inline uint64_t next(uint64_t &s) { s ^= s << 13; s ^= s >> 7; s ^= s << 17; return s; }

template <class Q> void producer(Q &q, uint64_t n, uint64_t seed, Result &r) {
  uint64_t s = seed | 1;
  for (uint64_t i = 1; i <= n; ++i) {
    q.Produce(i);
    if (next(s) % 64 == 0) usleep(next(s) % 300);     // let the consumer run dry and block
  }
  r.prod_done = true;
}

template <class Q> void consumer(Q &q, uint64_t n, uint64_t seed, Result &r) {
  uint64_t s = (seed * 0x9E3779B97F4A7C15ull) | 1;
  for (uint64_t i = 1; i <= n; ++i) {
    uint64_t v = 0;
    q.Consume(v);
    ++r.received;
    if (v != i && !r.bad) { r.bad = true; r.first_bad = i; r.got = v; r.want = i; }
    if (next(s) % 64 == 0) usleep(next(s) % 300);     // let the producer fill the ring and block
  }
  r.cons_done = true;
}

template <class Q> std::string run(Q &q, uint64_t n, uint64_t seed, unsigned interval_us) {
  install();
  Result r;
  unsigned long sig0 = g_signals.load();
  std::thread p([&] { producer(q, n, seed, r); });
  std::thread c([&] { consumer(q, n, seed, r); });
  pthread_t pt = p.native_handle(), ct = c.native_handle();
  auto t0 = std::chrono::steady_clock::now();
  bool hang = false;
  while (!(r.prod_done && r.cons_done)) {
    if (!r.prod_done) pthread_kill(pt, SIGUSR1);
    if (!r.cons_done) pthread_kill(ct, SIGUSR1);
    usleep(interval_us);
    if (std::chrono::steady_clock::now() - t0 > std::chrono::seconds(150)) { hang = true; break; }
  }
  if (hang) {
    // the threads cannot be joined; report and leave the process (the driver is restarted by the caller)
    std::cout << "HANG received=" << r.received << " of " << n << " signals=" << (g_signals.load() - sig0) << std::endl;
    _exit(3);
  }
  p.join();
  c.join();
  std::string out = r.bad ? "BAD item " + std::to_string(r.first_bad) + " got " + std::to_string(r.got) + " want " + std::to_string(r.want)
                          : "ok fifo " + std::to_string(r.received);
  return out + " signals=" + std::to_string(g_signals.load() - sig0);
}
} // namespace

// sig.pcq <capacity> <items> <seed> <interval_us>
static Reg r_sig_pcq("sig.pcq", [](const std::vector<std::string> &a) -> std::string {
  if (a.size() != 4) return "bad-op";
  util::PCQueue<uint64_t> q(strtoul(a[0].c_str(), NULL, 10));
  return run(q, strtoull(a[1].c_str(), NULL, 10), strtoull(a[2].c_str(), NULL, 10), strtoul(a[3].c_str(), NULL, 10));
});

// sig.usq <items> <seed> <interval_us>
static Reg r_sig_usq("sig.usq", [](const std::vector<std::string> &a) -> std::string {
  if (a.size() != 3) return "bad-op";
  util::UnboundedSingleQueue<uint64_t> q;
  return run(q, strtoull(a[0].c_str(), NULL, 10), strtoull(a[1].c_str(), NULL, 10), strtoul(a[2].c_str(), NULL, 10));
});

int main() { return pv::main_loop(); }
