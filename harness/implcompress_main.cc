// Implementation-side driver for util/compress.cc (C15): WriteCompressed, ReadCompressed, GZCompress.
// The PV_TRACE events of the stream classes are collected through a temporary file.
#include "proto.hh"
#include "util/compress.hh"
#include "util/file.hh"
#include "util/exception.hh"
#include <sys/syscall.h>
#include <unistd.h>
#include <fcntl.h>
#include <thread>
#include <cstring>
#include <cerrno>
using namespace pv;

namespace {
int g_trace_fd = -1;
int g_watch_fd = -1;
std::vector<long> g_sched;
size_t g_sched_pos = 0;

std::string take_trace() {
  std::string t;
  off_t end = lseek(g_trace_fd, 0, SEEK_CUR);
  t.resize(end);
  if (end) { ssize_t k = pread(g_trace_fd, &t[0], end, 0); if (k < 0) t.clear(); }
  if (ftruncate(g_trace_fd, 0)) {}
  lseek(g_trace_fd, 0, SEEK_SET);
  for (char &c : t) if (c == '\n') c = ';'; else if (c == ' ') c = ':';
  return t.empty() ? "-" : t;
}
void set_sched(const std::string &s) {
  g_sched.clear(); g_sched_pos = 0;
  if (s == "-") return;
  std::istringstream is(s); std::string t;
  while (std::getline(is, t, ',')) g_sched.push_back(strtol(t.c_str(), NULL, 10));
}
}

extern "C" ssize_t read(int fd, void *buf, size_t count) {
  if (fd == g_watch_fd && g_sched_pos < g_sched.size()) {
    long n = g_sched[g_sched_pos++];
    if (n == 0) { errno = EINTR; return -1; }
    if (n > 0 && (size_t)n < count) count = (size_t)n;
  }
  return syscall(SYS_read, fd, buf, count);
}

// z.write <none|gzip|bzip2> <script: w<n>,f,...> <hexdata>   -> ok <file hex> <trace>
static Reg r_zwrite("z.write", [](const std::vector<std::string> &a) -> std::string {
  std::string data;
  if (a.size() != 3 || !unhex(a[2], data)) return "bad-op";
  util::WriteCompressed::Compression c = a[0] == "gzip" ? util::WriteCompressed::GZIP : a[0] == "bzip2" ? util::WriteCompressed::BZIP : util::WriteCompressed::NONE;
  char name[] = "/verif/.cache/tmp/pvzXXXXXX";
  int fd = mkstemp(name);
  if (fd < 0) return "ERR:mkstemp";
  int keep = dup(fd);
  unlink(name);
  take_trace();
  try {
    util::WriteCompressed w(fd, c);
    size_t off = 0;
    std::istringstream is(a[1]);
    std::string t;
    while (std::getline(is, t, ',')) {
      if (t.empty() || t == "-") continue;
      if (t[0] == 'f') w.flush();
      else { size_t n = strtoul(t.c_str() + 1, NULL, 10); if (off + n > data.size()) n = data.size() - off; w.write(data.data() + off, n); off += n; }
    }
  } catch (const std::exception &) { close(keep); return "ERR:exception " + take_trace(); }
  std::string file;
  off_t sz = lseek(keep, 0, SEEK_END);
  file.resize(sz);
  if (sz) { ssize_t k = pread(keep, &file[0], sz, 0); (void)k; }
  close(keep);
  return "ok " + hex(file) + " " + take_trace();
});

// z.read <sched|-> <amounts csv> <hexblob>  -> ok <hex bytes> <returned counts csv> [ERR:kind] <trace>
static Reg r_zread("z.read", [](const std::vector<std::string> &a) -> std::string {
  std::string blob;
  if (a.size() != 3 || !unhex(a[2], blob)) return "bad-op";
  std::vector<size_t> amounts;
  { std::istringstream is(a[1]); std::string t; while (std::getline(is, t, ',')) amounts.push_back(strtoul(t.c_str(), NULL, 10)); }
  if (amounts.empty()) amounts.push_back(4096);
  int fds[2];
  if (pipe(fds)) return "ERR:pipe";
  std::thread w([&]() {
    size_t off = 0;
    while (off < blob.size()) { ssize_t k = syscall(SYS_write, fds[1], blob.data() + off, blob.size() - off); if (k <= 0) break; off += k; }
    close(fds[1]);
  });
  take_trace();
  std::string out, counts, err;
  set_sched(a[0]);
  g_watch_fd = fds[0];
  try {
    util::ReadCompressed r(fds[0]);
    for (size_t i = 0;; ++i) {
      size_t amt = amounts[i % amounts.size()];
      std::string buf(amt, 0);
      size_t got = r.Read(&buf[0], amt);
      counts += (counts.empty() ? "" : ",") + std::to_string(got);
      if (!got) break;
      out.append(buf.data(), got);
      if (out.size() > (64u << 20)) { err = " ERR:runaway"; break; }
    }
  } catch (const util::CompressedException &) { err = " ERR:compressed";
  } catch (const util::Exception &) { err = " ERR:exception";
  } catch (const std::exception &) { err = " ERR:std"; }
  g_watch_fd = -1;
  char tmp[4096];
  while (syscall(SYS_read, fds[0], tmp, sizeof tmp) > 0) {}
  w.join();
  return "ok " + hex(out) + " " + (counts.empty() ? "-" : counts) + err + " " + take_trace();
});

static Reg r_gzc("z.gzcompress", [](const std::vector<std::string> &a) -> std::string {
  std::string data, out;
  if (a.size() != 1 || !unhex(a[0], data)) return "bad-op";
  util::GZCompress(data, out);
  return "ok " + hex(out);
});

int main() {
  char name[] = "/verif/.cache/tmp/pvtraceXXXXXX";
  g_trace_fd = mkstemp(name);
  unlink(name);
  setenv("PREPROCESS_VERIF_TRACE_FD", std::to_string(g_trace_fd).c_str(), 1);
  return pv::main_loop();
}
