// Implementation-side driver for util/compress.cc (C15): WriteCompressed, ReadCompressed, GZCompress.
// The PV_TRACE events of the stream classes are collected through a temporary file.
#include "proto.hh"
#include "util/compress.hh"
#include "util/file.hh"
#include "util/exception.hh"
#include <sys/syscall.h>
#include <unistd.h>
#include <fcntl.h>
#include <thread>
#include <cstring>
#include <cerrno>
#include <sys/mman.h>
#include <sys/stat.h>
#include <zlib.h>
#include <bzlib.h>
using namespace pv;

namespace {
int g_trace_fd = -1;
int g_watch_fd = -1;
std::vector<long> g_sched;
size_t g_sched_pos = 0;

std::string take_trace() {
  std::string t;
  off_t end = lseek(g_trace_fd, 0, SEEK_CUR);
  t.resize(end);
  if (end) { ssize_t k = pread(g_trace_fd, &t[0], end, 0); if (k < 0) t.clear(); }
  if (ftruncate(g_trace_fd, 0)) {}
  lseek(g_trace_fd, 0, SEEK_SET);
  for (char &c : t) if (c == '\n') c = ';'; else if (c == ' ') c = ':';
  return t.empty() ? "-" : t;
}
void set_sched(const std::string &s) {
  g_sched.clear(); g_sched_pos = 0;
  if (s == "-") return;
  std::istringstream is(s); std::string t;
  while (std::getline(is, t, ',')) g_sched.push_back(strtol(t.c_str(), NULL, 10));
}
}

extern "C" ssize_t read(int fd, void *buf, size_t count) {
  if (fd == g_watch_fd && g_sched_pos < g_sched.size()) {
    long n = g_sched[g_sched_pos++];
    if (n == 0) { errno = EINTR; return -1; }
    if (n > 0 && (size_t)n < count) count = (size_t)n;
  }
  return syscall(SYS_read, fd, buf, count);
}

// z.write <none|gzip|bzip2> <script: w<n>,f,...> <hexdata>   -> ok <file hex> <trace>
static Reg r_zwrite("z.write", [](const std::vector<std::string> &a) -> std::string {
  std::string data;
  if (a.size() != 3 || !unhex(a[2], data)) return "bad-op";
  util::WriteCompressed::Compression c = a[0] == "gzip" ? util::WriteCompressed::GZIP : a[0] == "bzip2" ? util::WriteCompressed::BZIP : util::WriteCompressed::NONE;
  char name[] = "/verif/.cache/tmp/pvzXXXXXX";
  int fd = mkstemp(name);
  if (fd < 0) return "ERR:mkstemp";
  int keep = dup(fd);
  unlink(name);
  take_trace();
  try {
    util::WriteCompressed w(fd, c);
    size_t off = 0;
    std::istringstream is(a[1]);
    std::string t;
    while (std::getline(is, t, ',')) {
      if (t.empty() || t == "-") continue;
      if (t[0] == 'f') w.flush();
      else { size_t n = strtoul(t.c_str() + 1, NULL, 10); if (off + n > data.size()) n = data.size() - off; w.write(data.data() + off, n); off += n; }
    }
  } catch (const std::exception &) { close(keep); return "ERR:exception " + take_trace(); }
  std::string file;
  off_t sz = lseek(keep, 0, SEEK_END);
  file.resize(sz);
  if (sz) { ssize_t k = pread(keep, &file[0], sz, 0); (void)k; }
  close(keep);
  return "ok " + hex(file) + " " + take_trace();
});

// z.writerand <gzip|bzip2> <seed> <total bytes> <max write size> -> ok <path of the file> <bytes written> <crc32 of the data> <trace>
// incompressible pseudo-random data in writes of 1..max bytes (the compressed output then crosses the 4 KiB staging
// buffer at every alignment); the caller expands the file with an independent decoder and removes it
#include <zlib.h>
static Reg r_zwriterand("z.writerand", [](const std::vector<std::string> &a) -> std::string {
  if (a.size() != 4) return "bad-op";
  util::WriteCompressed::Compression c = a[0] == "gzip" ? util::WriteCompressed::GZIP : util::WriteCompressed::BZIP;
  unsigned long long seed = strtoull(a[1].c_str(), NULL, 10);
  size_t total = strtoul(a[2].c_str(), NULL, 10), maxw = strtoul(a[3].c_str(), NULL, 10);
  if (!maxw) maxw = 1;
  std::string path = "/verif/.cache/tmp/pvzrand-" + a[0] + "-" + a[1] + "-" + a[2];
  int fd = open(path.c_str(), O_CREAT | O_TRUNC | O_WRONLY, 0644);
  if (fd < 0) return "ERR:open";
  take_trace();
  unsigned long crc = crc32(0L, Z_NULL, 0);
  unsigned long long x = seed * 6364136223846793005ULL + 1442695040888963407ULL;
  try {
    util::WriteCompressed w(fd, c);
    std::string chunk;
    size_t done = 0;
    while (done < total) {
      x = x * 6364136223846793005ULL + 1442695040888963407ULL;
      size_t n = 1 + (size_t)((x >> 33) % maxw);
      if (n > total - done) n = total - done;
      chunk.resize(n);
      for (size_t i = 0; i < n; ++i) { x = x * 6364136223846793005ULL + 1442695040888963407ULL; chunk[i] = (char)(x >> 56); }
      crc = crc32(crc, reinterpret_cast<const Bytef *>(chunk.data()), (uInt)n);
      w.write(chunk.data(), n);
      done += n;
    }
  } catch (const std::exception &) { return "ERR:exception " + take_trace(); }
  return "ok " + path + " " + std::to_string(total) + " " + std::to_string(crc) + " " + take_trace();
});

// z.writehuge <gzip|bzip2> <n>: ONE write() call of n bytes (n may exceed 2^32: the sizes at which zlib's 32-bit avail_in wraps) from a
// lazily committed mapping (NUL everywhere, a marker byte every 1048573 bytes) through the real WriteCompressed into a file; the
// file is then expanded with zlib's own gzread (gzip) or libbz2's BZ2_bzread (bzip2) and compared byte for byte.
//   -> ok <n> <compressed size>   |  FAIL expanded <k> of <n> [first wrong byte at <p>]
static Reg r_zwritehuge("z.writehuge", [](const std::vector<std::string> &a) -> std::string {
  if (a.size() != 2) return "bad-op";
  bool gz = a[0] == "gzip";
  unsigned long long n = strtoull(a[1].c_str(), NULL, 10);
  if (!n) return "bad-op";
  size_t maplen = ((n + 4095) / 4096 + 1) * 4096;
  void *m = mmap(NULL, maplen, PROT_READ | PROT_WRITE, MAP_PRIVATE | MAP_ANONYMOUS | MAP_NORESERVE, -1, 0);
  if (m == MAP_FAILED) return "skipped:mmap";
  unsigned char *p = static_cast<unsigned char*>(m);
  for (unsigned long long q = 0; q < n; q += 1048573ull) p[q] = (unsigned char)((q / 1048573ull) % 251 + 1);
  const char *tmpdir = getenv("PV_TMP") ? getenv("PV_TMP") : "/verif/.cache/tmp";
  std::string path = std::string(tmpdir) + "/pvzhuge-" + a[0] + "-" + a[1];
  int fd = open(path.c_str(), O_CREAT | O_TRUNC | O_WRONLY, 0644);
  if (fd < 0) { munmap(m, maplen); return "ERR:open"; }
  take_trace();
  std::string res;
  try {
    {
      util::WriteCompressed w(fd, gz ? util::WriteCompressed::GZIP : util::WriteCompressed::BZIP);
      w.write(p, n);
    }
    take_trace();
    munmap(m, maplen);
    m = NULL;
    struct stat st;
    stat(path.c_str(), &st);
    std::vector<unsigned char> buf(1 << 20);
    unsigned long long got = 0, wrong = ~0ull;
    auto scan = [&](int k) {
      for (int i = 0; i < k; ++i) {
        unsigned long long q = got + i;
        unsigned char want = q % 1048573ull == 0 ? (unsigned char)((q / 1048573ull) % 251 + 1) : 0;
        if (buf[i] != want && wrong == ~0ull) wrong = q;
      }
      got += k;
    };
    if (gz) {
      gzFile f = gzopen(path.c_str(), "rb");
      int k;
      while (f && (k = gzread(f, buf.data(), buf.size())) > 0) scan(k);
      if (f) gzclose(f);
    } else {
      BZFILE *f = BZ2_bzopen(path.c_str(), "rb");
      int k;
      while (f && (k = BZ2_bzread(f, buf.data(), buf.size())) > 0) scan(k);
      if (f) BZ2_bzclose(f);
    }
    if (got == n && wrong == ~0ull) res = "ok " + std::to_string(n) + " " + std::to_string((unsigned long long)st.st_size);
    else res = "FAIL expanded " + std::to_string(got) + " of " + std::to_string(n) + (wrong != ~0ull ? " first wrong byte at " + std::to_string(wrong) : "");
  } catch (const std::exception &) { res = "ERR:exception"; }
  if (m) munmap(m, maplen);
  unlink(path.c_str());
  return res;
});

// z.gzcompressrand <seed> <count> <minlen> <maxlen>: GZCompress on <count> pseudo-random semi-compressible bodies (words from a
// small vocabulary, so that deflate emits blocks at irregular output offsets); every result is expanded with zlib's inflate
// and compared.  -> ok <count> <total in> <total out>  |  FAIL body <k> len <n> seed <s>: <what>
static Reg r_gzcrand("z.gzcompressrand", [](const std::vector<std::string> &a) -> std::string {
  if (a.size() != 4) return "bad-op";
  unsigned long long x = strtoull(a[0].c_str(), NULL, 10) * 6364136223846793005ULL + 1442695040888963407ULL;
  size_t count = strtoul(a[1].c_str(), NULL, 10), lo = strtoul(a[2].c_str(), NULL, 10), hi = strtoul(a[3].c_str(), NULL, 10);
  auto rnd = [&x]() { x = x * 6364136223846793005ULL + 1442695040888963407ULL; return (unsigned)(x >> 33); };
  size_t tin = 0, tout = 0;
  std::string body, gz, back;
  for (size_t k = 0; k < count; ++k) {
    size_t n = lo + rnd() % (hi - lo + 1);
    unsigned vocab = 50 + rnd() % 5000;
    body.clear();
    while (body.size() < n) { body += "w" + std::to_string(rnd() % vocab); body.push_back((rnd() % 9) ? ' ' : '\n'); }
    body.resize(n);
    try { util::GZCompress(body, gz); } catch (const std::exception &e) { return "FAIL body " + std::to_string(k) + " len " + std::to_string(n) + ": exception " + e.what(); }
    back.assign(n + 64, 0);
    z_stream zs; memset(&zs, 0, sizeof zs);
    if (inflateInit2(&zs, 31) != Z_OK) return "ERR:inflateInit";
    zs.next_in = reinterpret_cast<Bytef *>(&gz[0]); zs.avail_in = (uInt)gz.size();
    zs.next_out = reinterpret_cast<Bytef *>(&back[0]); zs.avail_out = (uInt)back.size();
    int rc = inflate(&zs, Z_FINISH);
    size_t got = back.size() - zs.avail_out;
    bool clean = rc == Z_STREAM_END && zs.avail_in == 0;
    inflateEnd(&zs);
    if (!clean || got != n || memcmp(back.data(), body.data(), n))
      return "FAIL body " + std::to_string(k) + " len " + std::to_string(n) + " (seed " + a[0] + "): the gzip member of " + std::to_string(gz.size()) +
             " bytes " + (clean ? "expands to other bytes" : "is not one valid gzip stream (inflate rc " + std::to_string(rc) + ", " + std::to_string(zs.avail_in) + " bytes left over)");
    tin += n; tout += gz.size();
  }
  return "ok " + std::to_string(count) + " " + std::to_string(tin) + " " + std::to_string(tout);
});

// z.read <sched|-> <amounts csv> <hexblob>  -> ok <hex bytes> <returned counts csv> [ERR:kind] <trace>
static Reg r_zread("z.read", [](const std::vector<std::string> &a) -> std::string {
  std::string blob;
  if (a.size() != 3 || !unhex(a[2], blob)) return "bad-op";
  std::vector<size_t> amounts;
  { std::istringstream is(a[1]); std::string t; while (std::getline(is, t, ',')) amounts.push_back(strtoul(t.c_str(), NULL, 10)); }
  if (amounts.empty()) amounts.push_back(4096);
  int fds[2];
  if (pipe(fds)) return "ERR:pipe";
  std::thread w([&]() {
    size_t off = 0;
    while (off < blob.size()) { ssize_t k = syscall(SYS_write, fds[1], blob.data() + off, blob.size() - off); if (k <= 0) break; off += k; }
    close(fds[1]);
  });
  take_trace();
  std::string out, counts, err;
  set_sched(a[0]);
  g_watch_fd = fds[0];
  try {
    util::ReadCompressed r(fds[0]);
    for (size_t i = 0;; ++i) {
      size_t amt = amounts[i % amounts.size()];
      std::string buf(amt, 0);
      size_t got = r.Read(&buf[0], amt);
      counts += (counts.empty() ? "" : ",") + std::to_string(got);
      if (!got) break;
      out.append(buf.data(), got);
      if (out.size() > (64u << 20)) { err = " ERR:runaway"; break; }
    }
  } catch (const util::CompressedException &) { err = " ERR:compressed";
  } catch (const util::Exception &) { err = " ERR:exception";
  } catch (const std::exception &) { err = " ERR:std"; }
  g_watch_fd = -1;
  char tmp[4096];
  while (syscall(SYS_read, fds[0], tmp, sizeof tmp) > 0) {}
  w.join();
  return "ok " + hex(out) + " " + (counts.empty() ? "-" : counts) + err + " " + take_trace();
});

static Reg r_gzc("z.gzcompress", [](const std::vector<std::string> &a) -> std::string {
  std::string data, out;
  if (a.size() != 1 || !unhex(a[0], data)) return "bad-op";
  util::GZCompress(data, out);
  return "ok " + hex(out);
});

int main() {
  char name[] = "/verif/.cache/tmp/pvtraceXXXXXX";
  g_trace_fd = mkstemp(name);
  unlink(name);
  setenv("PREPROCESS_VERIF_TRACE_FD", std::to_string(g_trace_fd).c_str(), 1);
  return pv::main_loop();
}
