#!/bin/sh
# MANIFEST.hooks.baseline_off_cmd: the repository's own suite with the guard OFF.
set -e
D=/verif/.cache/baseline_off
rm -rf "$D"
cmake -G Ninja -S /repo -B "$D" -DCMAKE_BUILD_TYPE=RelWithDebInfo -DCOMPILE_TESTS=ON -DCMAKE_CXX_FLAGS=-Wno-error >/dev/null
cmake --build "$D" -j 16 >/dev/null
ctest --test-dir "$D" -j8 --timeout 900 --output-junit "$D/junit.xml"
rc=$?
rm -rf "$D"
exit $rc
