#!/bin/sh
# MANIFEST.setup_cmd: build everything the checks need, offline, from files on disk.
set -e
cd "$(dirname "$0")"
mkdir -p .cache/tmp evidence replays
python3 tools/gen_consts.py          # builds /repo (san flavour, hooks on) + harness, regenerates PV/Gen
cd lean && lake build PV pvdriver
