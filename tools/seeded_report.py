#!/usr/bin/env python3
"""Regenerate seeded/README.md and the table between the SEEDED-TABLE markers of DESIGN.md from seeded/*/meta.json."""
import glob, json, os, re

VERIF = os.path.dirname(os.path.dirname(os.path.abspath(__file__)))


def files_of(patch):
    return sorted(set(re.findall(r"^\+\+\+ b/(\S+)", open(patch).read(), flags=re.M)))


def verdict(r):
    if not r or r.get("exit") != 1 or not r.get("violations"):
        return "missed"
    return "input" if r.get("with_input") else "no-failing-input-found"


def main():
    rows = []
    for d in sorted(glob.glob(os.path.join(VERIF, "seeded", "*", "meta.json"))):
        m = json.load(open(d))
        name = m["name"]
        patch = os.path.join(os.path.dirname(d), "patch.diff")
        now = m.get("checks_with_change", {})
        first = m.get("checks_with_change_first_run", now)
        own = m["property"]
        others = [c for c in now if c != own and verdict(now[c]) != "missed"]
        what = (now.get(own, {}).get("summary") or [""])[0]
        rows.append((name, own, ", ".join(files_of(patch)), "yes" if m.get("confirmed") else "NO", m.get("ctest_with_change", "")[:20],
                     verdict(first.get(own)), verdict(now.get(own)), ", ".join(others) or "-", what[:150].replace("|", "/")))
    head = ("| seeded change | property | files | confirmed (demo passes before, fails after, ctest passes) | own check at first run | own check now | other checks that report it | what the own check prints |\n"
            "|---|---|---|---|---|---|---|---|\n")
    body = "".join(f"| {n} | {p} | {f} | {c} | {a} | {b} | {o} | {w} |\n" for (n, p, f, c, _, a, b, o, w) in rows)
    table = head + body
    caught = sum(1 for r in rows if r[6] != "missed")
    summary = (f"{len(rows)} seeded changes, {sum(1 for r in rows if r[3] == 'yes')} confirmed; own property's quick check reports {caught} "
               f"({sum(1 for r in rows if r[6] == 'input')} with a concrete failing input), {sum(1 for r in rows if r[5] == 'missed')} were missed at first run "
               f"and led to the strengthenings described in DESIGN.md section 9.\n")
    with open(os.path.join(VERIF, "seeded", "README.md"), "w") as f:
        f.write("# Seeded regressions\n\nEach directory: `patch.diff` (apply with `git -C /repo apply`), the author's demonstration, `meta.json` "
                "(what `tools/seeded.py confirm` ran and saw).  Never committed to /repo.\n\n"
                "\"input\" = VIOLATION with a concrete failing input/schedule/history in the replay; \"no-failing-input-found\" = a proof "
                "obligation or correspondence broke and the search found no input.\n\n" + summary + "\n" + table)
    p = os.path.join(VERIF, "DESIGN.md")
    s = open(p).read()
    if "<!-- SEEDED-TABLE -->" in s:
        s = re.sub(r"<!-- SEEDED-TABLE -->.*<!-- /SEEDED-TABLE -->", lambda m_: "<!-- SEEDED-TABLE -->\n" + summary + "\n" + table + "<!-- /SEEDED-TABLE -->", s, flags=re.S)
        open(p, "w").write(s)
    print(summary)


if __name__ == "__main__":
    main()
