"""Shared helpers for the wrapper tools (C04, C05): run with a scripted child, collect the PV_TRACE log."""
import os, subprocess, sys
import pvlib

CHILD = os.path.join(pvlib.VERIF, "harness", "children", "child.py")


def run_traced(ctx, argv, stdin, child_args, child_fn="id", timeout=60, log_child=None, nice=None, pauses=None, pause_s=0.12, linger_s=0, _retry=False):
    r = _run_traced(ctx, argv, stdin, child_args, child_fn, timeout, log_child, nice, pauses, pause_s, linger_s)
    if r[0] == "HANG" and not _retry and pvlib.HANG_RETRIES[0] > 0:
        # not finished in time: once more with four times the limit before this counts as a deadlock (a busy machine is not one)
        pvlib.HANG_RETRIES[0] -= 1
        if log_child and os.path.exists(log_child):
            os.unlink(log_child)
        return _run_traced(ctx, argv, stdin, child_args, child_fn, min(timeout * 4, 600), log_child, nice, pauses, pause_s, linger_s)
    return r


def _run_traced(ctx, argv, stdin, child_args, child_fn="id", timeout=60, log_child=None, nice=None, pauses=None, pause_s=0.12, linger_s=0):
    """returns (status, stdout, stderr, trace_lines).  pauses: byte offsets of stdin at which the feeder stalls for
    pause_s seconds (the upstream producer of a pipeline pausing), so that the wrapper's threads catch up with the input;
    linger_s: after the last byte, stdin stays open for that long before end of input"""
    rfd, wfd = os.pipe()
    env = pvlib.san_env({"PREPROCESS_VERIF_TRACE_FD": str(wfd), "PV_CHILD_FN": child_fn})
    child = [sys.executable, CHILD] + (["log", log_child] if log_child else []) + child_args
    full = ([] if nice is None else ["nice", "-n", str(nice)]) + [ctx.bin(argv[0])] + argv[1:] + child
    p = subprocess.Popen(full, stdin=subprocess.PIPE, stdout=subprocess.PIPE, stderr=subprocess.PIPE, env=env, pass_fds=(wfd,))
    os.close(wfd)
    import threading
    trace = []

    def rd():
        with os.fdopen(rfd, "rb") as f:
            trace.append(f.read())
    t = threading.Thread(target=rd)
    t.start()
    if pauses or linger_s:
        import time
        bufs = {"o": [], "e": []}

        def pump(f, key):
            bufs[key].append(f.read())
        to, te = threading.Thread(target=pump, args=(p.stdout, "o")), threading.Thread(target=pump, args=(p.stderr, "e"))
        to.start(); te.start()

        def feed():
            pos = 0
            try:
                for off in sorted(set(o for o in (pauses or []) if 0 < o < len(stdin))) + [len(stdin)]:
                    p.stdin.write(stdin[pos:off]); p.stdin.flush()
                    pos = off
                    if off < len(stdin):
                        time.sleep(pause_s)
                if linger_s:
                    time.sleep(linger_s)
            except (BrokenPipeError, OSError):
                pass
            try:
                p.stdin.close()
            except OSError:
                pass
        tf = threading.Thread(target=feed)
        tf.start()
        try:
            p.wait(timeout=timeout)
            st = p.returncode if p.returncode >= 0 else "sig%d" % -p.returncode
        except subprocess.TimeoutExpired:
            p.kill()
            p.wait()
            st = "HANG"
        tf.join(timeout=10); to.join(timeout=10); te.join(timeout=10)
        out, err = b"".join(bufs["o"]), b"".join(bufs["e"])
    else:
        try:
            out, err = p.communicate(stdin, timeout=timeout)
            st = p.returncode if p.returncode >= 0 else "sig%d" % -p.returncode
        except subprocess.TimeoutExpired:
            p.kill()
            out, err = p.communicate()
            st = "HANG"
    t.join(timeout=5)
    lines = (trace[0] if trace else b"").decode(errors="replace").split("\n")
    return st, out, err, [l for l in lines if l]


def events(tool, trace):
    """PV_TRACE lines -> visible events of PV.Wrapper.astep"""
    ev = []
    for l in trace:
        w = l.split()
        k = w[0]
        if k == "F.enq":
            ev.append(f"enq:{w[1]}:{w[2]}")
        elif k == "F.write":
            ev.append(f"write:{w[1]}")
        elif k == "F.poison":
            ev.append("poison")
        elif k == "F.close":
            ev.append("close")
        elif k == "C.consume":
            ev.append(f"consume:{w[1]}")
        elif k == "C.read":
            ev.append("read")
        elif k == "C.out":
            ev.append("out")
        elif k == "C.done":
            ev.append("finish")
    return ev


MODES = {"cache": ("1", "0"), "foldfilter": ("1", "1"), "b64filter": ("1", "1")}   # (enqueueFirst, poisonFirst)


def accept(tool, trace):
    ef, pf = MODES[tool]
    ev = events(tool, trace)
    # the acceptor is OUR program: if it does not answer in time (long traces on a busy machine) that says nothing about the tool.
    # One more attempt with a generous limit; after that the trace counts as not validated ("skipped"), never as rejected.
    op = f"wrapper.accept {ef} {pf} " + " ".join(ev)
    r = pvlib.run_lines(pvlib.PVDRIVER, [op], timeout=900, stall=600)[0]
    if r == "HANG" or r.startswith("CRASH"):
        r = pvlib.run_lines(pvlib.PVDRIVER, [op], timeout=3000, stall=2400)[0]
        if r == "HANG" or r.startswith("CRASH"):
            r = "skipped: the trace acceptor did not finish (" + str(len(ev)) + " events)"
    return r, ev


def paced_corpus(tool):
    """(stdin bytes, byte offsets at which the producer stalls) that let the wrapper's output thread catch up with its
    input thread exactly at, just before and just after the multiples of the queue page size (1023 entries,
    util/pcqueue.hh).  The output thread can only be fully caught up when everything sent so far has reached the child:
    cache flushes at every 4096th new line (so: 4096 distinct lines, then repeats only); foldfilter and b64filter write
    records longer than the 8 KiB stream buffer straight through (so: a long record at the boundary)."""
    import base64
    if tool == "cache":
        lines = [b"row %d" % i for i in range(4096)] + [b"row %d" % ((i * 7) % 4096) for i in range(2300)]
        marks = sorted(set([1023 * k + d for k in range(1, 7) for d in (-1, 0, 1)] + [4095, 4096, 4097]))
        recs = [l + b"\n" for l in lines]
    else:
        recs = []
        for i in range(2100):
            body = (b"word%d " % i) * (1500 if (i + 1) % 1023 in (0, 1, 1022) else 3)
            if tool == "b64filter":
                recs.append(base64.b64encode(body + b"\nsecond line\n") + b"\n")
            else:
                recs.append(body.rstrip() + b"\n")
        marks = sorted(set(1023 * k + d for k in (1, 2) for d in (-1, 0, 1)))
    offs, o = [], 0
    for r in recs:
        o += len(r)
        offs.append(o)
    return b"".join(recs), [offs[k - 1] for k in marks if 0 < k <= len(offs)]
