"""Standard invocations of the 24 executables with small valid inputs, shared by C03, C11 and C20.
Each entry: name -> function(tmpdir, rng) -> dict(argv tail, stdin bytes, out_files [paths], setup files written)."""
import base64, os


def _w(path, data):
    with open(path, "wb") as f:
        f.write(data)
    return path


def warc_record(body, uri=b"http://x/"):
    hdr = b"WARC/1.0\r\nWARC-Type: response\r\nWARC-Target-URI: " + uri + b"\r\nContent-Length: " + str(len(body)).encode() + b"\r\n\r\n"
    return hdr + body + b"\r\n\r\n"


TEXT = b"the cat sat on the mat\nthe dog sat\n\nA second line, with punctuation - and more.\nthe cat sat on the mat\n" \
       b"caf\xc3\xa9 na\xc3\xafve \xe2\x82\xac 5\n" + b"word " * 300 + b"\n"


def big_text(rng, n):
    words = [b"alpha", b"beta", b"gamma", b"delta", b"caf\xc3\xa9", b"x", b"the", b"of"]
    out = []
    for _ in range(n):
        out.append(b" ".join(rng.choice(words) for _ in range(rng.randrange(0, 12))))
    return b"\n".join(out) + b"\n"


def invocations(tmp, rng, size=400):
    """returns list of (label, tool, argv_tail, stdin, out_files)"""
    t = big_text(rng, size) + TEXT
    b64 = b"".join(base64.b64encode(d) + b"\n" for d in [b"doc one\nline two\n", b"", b"x", t[:3000]])
    sub = _w(os.path.join(tmp, "sub.txt"), b"the dog sat\nx\n")
    tsv = b"".join(b"k%d\tv%d\tsent a\tsent b\tval%d\trest\n" % (i % 5, i, i % 3) for i in range(60))
    warc = b"".join(warc_record(bytes([65 + i % 26]) * (i * 37 % 900), b"http://x/%d" % i) for i in range(12))
    inv = []
    inv.append(("dedupe", "dedupe", [], t, []))
    inv.append(("dedupe-f", "dedupe", ["-f", "1", "-d", " "], t, []))
    inv.append(("cache", "cache", ["cat"], t, []))
    inv.append(("cache-k", "cache", ["-k", "1", "-t", " ", "cat"], t, []))
    inv.append(("foldfilter", "foldfilter", ["-w", "20", "cat"], t, []))
    inv.append(("foldfilter-s", "foldfilter", ["-w", "9", "-s", "cat"], t, []))
    inv.append(("b64filter", "b64filter", ["cat"], b64, []))
    inv.append(("base64_number", "base64_number", [], b64, []))
    inv.append(("docenc", "docenc", [], t, []))
    inv.append(("docenc-d", "docenc", ["-d", "-q"], b64, []))
    inv.append(("commoncrawl_dedupe", "commoncrawl_dedupe", [sub], t, []))
    inv.append(("idf", "idf", [], t, []))
    inv.append(("mmhsum", "mmhsum", [], t, []))
    inv.append(("order_independent_hash", "order_independent_hash", [], t, []))
    inv.append(("remove_invalid_utf8", "remove_invalid_utf8", [], t + b"bad \xff line\n", []))
    inv.append(("remove_invalid_utf8_base64", "remove_invalid_utf8_base64", [], b64 + base64.b64encode(b"\xff") + b"\n", []))
    inv.append(("remove_long_lines", "remove_long_lines", ["100"], t, []))
    s0, s1, s2 = (os.path.join(tmp, "shard%d" % i) for i in range(3))
    inv.append(("shard", "shard", [s0, s1, s2], t, [s0, s1, s2]))
    g0, g1 = os.path.join(tmp, "g0.gz"), os.path.join(tmp, "g1.gz")
    inv.append(("shard-gz", "shard", ["-c", "gzip", g0, g1], t, [g0, g1]))
    inv.append(("substitute", "substitute", [], tsv, []))
    inv.append(("subtract_lines", "subtract_lines", [sub], t, []))
    inv.append(("vocab", "vocab", [], t, []))
    inv.append(("warc_parallel", "warc_parallel", ["-j", "2", "cat"], warc, []))
    inv.append(("process_unicode", "process_unicode", ["--lower", "--flatten", "--normalize"], t, []))
    inv.append(("simple_cleaning", "simple_cleaning", ["--min-chars", "3"], t, []))
    inv.append(("gigaword_unwrap", "gigaword_unwrap", [], b"<DOC id=\"a\">\n<TEXT>\n<P>\nhello world\nmore text\n</P>\n</TEXT>\n</DOC>\n", []))
    # truecase / train_case / apply_case need model files; tiny consistent ones
    model = _w(os.path.join(tmp, "tc.model"), b"The (10/12) the (2/12)\ncat (5/5)\nParis (3/3)\n")
    inv.append(("truecase", "truecase", ["--model", model], b"the cat saw paris .\nTHE CAT\n", []))
    return inv
