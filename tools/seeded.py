#!/usr/bin/env python3
"""Confirm a seeded regression and run the checks against it.

  seeded.py confirm <name> <property> <agent_demo_dir> "<demo command with {BIN} {SRC} {DEMO}>" [extra check ids...]

  1. copies patch.diff + the demonstration into /verif/seeded/<name>/
  2. in a fresh scratch worktree of /repo (under /tmp/confirm): build unpatched -> demo must PASS;
     apply the patch -> rebuild -> the repo's own ctest must pass -> demo must FAIL
  3. applies the patch to /repo, runs ./check <property> (and the extra checks), records the VIOLATION
     lines, and undoes the patch (git checkout -- .)
  4. writes meta.json; removes the scratch worktree and its build
"""
import json, os, re, shutil, subprocess, sys, time

VERIF = os.path.dirname(os.path.dirname(os.path.abspath(__file__)))


def sh(cmd, cwd=None, timeout=3600, env=None):
    p = subprocess.run(cmd, shell=True, cwd=cwd, stdout=subprocess.PIPE, stderr=subprocess.STDOUT, timeout=timeout, env=env)
    return p.returncode, p.stdout.decode(errors="replace")


def build(src, bdir):
    rc, out = sh(f"cmake -G Ninja -S {src} -B {bdir} -DCMAKE_BUILD_TYPE=RelWithDebInfo -DCOMPILE_TESTS=ON -DCMAKE_CXX_FLAGS=-Wno-error >/dev/null && cmake --build {bdir} -j 16 2>&1 | tail -5")
    return rc, out


def run_checks(patch, checks):
    assert sh("git -C /repo status --porcelain --untracked-files=no")[1].strip() == "", "/repo has uncommitted changes"
    rc, out = sh(f"git -C /repo apply {patch}")
    assert rc == 0, out
    results = {}
    try:
        for c in checks:
            t0 = time.time()
            rc, out = sh(f"./check {c} --tier quick", cwd=VERIF, timeout=3000)
            viol = [l for l in out.split("\n") if l.startswith("VIOLATION")]
            summ = [l.strip() for l in out.split("\n") if l.startswith("  ")][:3]
            results[c] = {"exit": rc, "violations": len(viol), "with_input": sum(1 for v in viol if "no-failing-input-found" not in v),
                          "first": (viol[0] if viol else ""), "summary": summ[:2], "wall_s": round(time.time() - t0, 1)}
    finally:
        sh("git -C /repo checkout -- .")
    return results


def recheck(name, checks):
    """re-run the (strengthened) checks against an already confirmed seeded change and update meta.json"""
    dst = os.path.join(VERIF, "seeded", name)
    meta = json.load(open(os.path.join(dst, "meta.json")))
    if "checks_with_change" in meta and "checks_with_change_first_run" not in meta:
        meta["checks_with_change_first_run"] = meta["checks_with_change"]
    results = dict(meta.get("checks_with_change", {}))
    results.update(run_checks(os.path.join(dst, "patch.diff"), checks or [meta["property"]]))
    meta["checks_with_change"] = results
    meta["caught_by"] = [c for c, r in results.items() if r["exit"] == 1 and r["violations"] > 0]
    meta["rechecked_at"] = time.strftime("%Y-%m-%d %H:%M:%S")
    json.dump(meta, open(os.path.join(dst, "meta.json"), "w"), indent=1)
    print(name, "caught_by", meta["caught_by"])
    for c, r in results.items():
        print(" ", c, r["exit"], r["first"][:120], r["summary"][:1])


def main():
    if sys.argv[1] == "recheck":
        return recheck(sys.argv[2], sys.argv[3:])
    _, cmd, name, prop, demo_dir, demo_cmd = sys.argv[:6]
    extra = sys.argv[6:]
    assert cmd == "confirm"
    dst = os.path.join(VERIF, "seeded", name)
    os.makedirs(dst, exist_ok=True)
    for f in os.listdir(demo_dir):
        p = os.path.join(demo_dir, f)
        if os.path.isfile(p) and os.path.getsize(p) < 2_000_000:
            shutil.copy(p, os.path.join(dst, f))
    patch = os.path.join(dst, "patch.diff")
    assert os.path.exists(patch), "no patch.diff"
    meta = {"name": name, "property": prop, "demo_cmd": demo_cmd, "confirmed_at": time.strftime("%Y-%m-%d %H:%M:%S"),
            "repo_head": sh("git -C /repo log --format=%h -1")[1].strip()}
    src = f"/tmp/confirm/{name}"
    shutil.rmtree(src, ignore_errors=True)
    sh(f"git -C /repo worktree prune")
    rc, out = sh(f"git -C /repo worktree add -q --detach {src} HEAD")
    assert rc == 0, out
    try:
        bdir = src + "/_b"
        # demonstrations that locate the tree relative to themselves are run from <worktree>/demo
        shutil.copytree(dst, src + "/demo", dirs_exist_ok=True)
        demo = demo_cmd.replace("{SRCDEMO}", src + "/demo")
        demo = demo.replace("{BIN}", bdir + "/bin").replace("{SRC}", src).replace("{DEMO}", dst).replace("{BUILD}", bdir)
        rc, out = build(src, bdir)
        assert rc == 0, "unpatched build failed " + out
        rc0, out0 = sh(demo, cwd=dst, timeout=1200)
        meta["demo_without_change"] = {"exit": rc0, "tail": out0[-600:]}
        rc, out = sh(f"git -C {src} apply --exclude='demo/*' {patch}")
        assert rc == 0, "patch does not apply: " + out
        rc, out = build(src, bdir)
        meta["patched_build_ok"] = rc == 0
        assert rc == 0, "patched build failed " + out
        rc, out = sh(f"ctest --test-dir {bdir} -j8 --timeout 900 2>&1 | tail -4")
        meta["ctest_with_change"] = out.strip().split("\n")[0] if out.strip() else ""
        meta["ctest_pass"] = "100% tests passed" in out
        rc1, out1 = sh(demo, cwd=dst, timeout=1200)
        meta["demo_with_change"] = {"exit": rc1, "tail": out1[-900:]}
        meta["confirmed"] = bool(rc0 == 0 and rc1 != 0 and meta["ctest_pass"])
    finally:
        sh(f"git -C /repo worktree remove --force {src}")
        shutil.rmtree(src, ignore_errors=True)
    if os.environ.get("SEEDED_SKIP_CHECKS"):
        with open(os.path.join(dst, "meta.json"), "w") as f:
            json.dump(meta, f, indent=1)
        print(name, "confirmed" if meta.get("confirmed") else "NOT CONFIRMED", meta.get("demo_without_change", {}).get("exit"),
              meta.get("demo_with_change", {}).get("exit"), meta.get("ctest_pass"))
        return
    # run our checks against /repo with the patch applied
    assert sh("git -C /repo status --porcelain --untracked-files=no")[1].strip() == "", "/repo has uncommitted changes"
    rc, out = sh(f"git -C /repo apply {patch}")
    assert rc == 0, out
    results = {}
    try:
        for c in [prop] + extra:
            t0 = time.time()
            rc, out = sh(f"./check {c} --tier quick", cwd=VERIF, timeout=3000)
            viol = [l for l in out.split("\n") if l.startswith("VIOLATION")]
            summ = [l.strip() for l in out.split("\n") if l.startswith("  ")][:3]
            results[c] = {"exit": rc, "violations": len(viol), "with_input": sum(1 for v in viol if "no-failing-input-found" not in v),
                          "first": (viol[0] if viol else ""), "summary": summ[:2], "wall_s": round(time.time() - t0, 1)}
    finally:
        sh("git -C /repo checkout -- .")
    meta["checks_with_change"] = results
    meta["caught_by"] = [c for c, r in results.items() if r["exit"] == 1 and r["violations"] > 0]
    with open(os.path.join(dst, "meta.json"), "w") as f:
        json.dump(meta, f, indent=1)
    print(json.dumps({k: meta[k] for k in ("confirmed", "ctest_with_change", "caught_by")}, indent=1))
    for c, r in results.items():
        print(c, r["exit"], r["first"][:150], r["summary"][:1])


if __name__ == "__main__":
    main()
