#!/usr/bin/env python3
"""Find an input for which libbz2 has emitted an exact multiple of 4096 bytes when its first 900k block completes, with that
moment falling into the LAST 8192-byte piece of the input: util::WriteStream<BZipWrite> then enters flush() with a completely
full staging buffer (4096 bytes, no output room), the one state in which "finish first, drain afterwards" and "drain first,
finish afterwards" differ.  About one input in 4096 qualifies, so the input is searched for (16 processes, ~20 s) and the
parameters are kept in corpus/bz2_full_staging.json; `data(seed)` regenerates the bytes and `qualifies` re-checks them against
the libbz2 of the machine the check runs on.

  craft_bz2.py search     -> writes corpus/bz2_full_staging.json
"""
import bz2, json, os, sys
from multiprocessing import Pool

VERIF = os.path.dirname(os.path.dirname(os.path.abspath(__file__)))
OUT = os.path.join(VERIF, "corpus", "bz2_full_staging.json")
BASE = 900400          # a little more than one block of bzip2 -9 for this kind of text


RANDOM_PART = 458370     # coarse tuning: this many incompressible bytes put the emitted size near 126 * 4096


def body(seed, n):
    """n bytes of 64-byte lines: the first RANDOM_PART bytes pseudo-random (seeded), the rest numbered text; the seed moves the
    compressed size of the block by a few hundred bytes, RANDOM_PART moves it by about 0.89 bytes per byte"""
    import random
    r = bytearray(random.Random(seed).randbytes(RANDOM_PART).replace(b"\n", b"x").replace(b"\r", b"y"))
    r[63::64] = b"\n" * len(r[63::64])
    out = [bytes(r)]
    size = len(r)
    i = 0
    while size < n:
        l = b"%d line %d of the generated text\n" % (i * 7919 % 1000003, i)
        out.append(l)
        size += len(l)
        i += 1
    return b"".join(out)[:n - 1] + b"\n"


def emitted(data):
    return len(bz2.BZ2Compressor(9).compress(data))


def data(seed, total):
    return body(seed, total)


def qualifies(seed, total):
    d = data(seed, total)
    last = (total - 1) // 8192 * 8192           # start of the last 8192-byte piece
    n = emitted(d)
    return n > 0 and n % 4096 == 0 and emitted(d[:last]) == 0


TOTAL = 900100      # bzip2 -9 closes its first block after 899981 bytes of text without long runs: inside the last 8192-byte piece of 900100


def try_seed(seed):
    d = body(seed, TOTAL)
    n = emitted(d)
    if n > 0 and n % 4096 == 0 and qualifies(seed, TOTAL):
        return (seed, TOTAL)
    return None


def search(start=1, limit=200000):
    with Pool(16) as pool:
        for r in pool.imap_unordered(try_seed, range(start, start + limit), chunksize=4):
            if r:
                pool.terminate()
                return r
    return None


if __name__ == "__main__":
    if sys.argv[1:] == ["search"]:
        r = search()
        print(r)
        if r:
            os.makedirs(os.path.dirname(OUT), exist_ok=True)
            json.dump({"seed": r[0], "total": r[1], "emitted_after_block_1": emitted(data(*r)),
                       "note": "regenerate with tools/craft_bz2.py search; tools/props/c06.py and c15.py re-check it with qualifies()"}, open(OUT, "w"), indent=1)
