#!/usr/bin/env python3
"""Translator for util/utf8.hh: IsTrailByte, IsValidCodepoint and DecodeUTF8 are regenerated from /repo's current source into
lean/PV/Gen/Utf8.lean (namespace PV.Utf8: isTrailByte, isValidCodepoint, byteAt, decode) on every run.  The property theorems
of C12 (and everything built on the decoder: C07, C18) are therefore checked against what the code says NOW; a change of the
function changes the generated definition and the proofs must still go through.

Input: clang's typed AST (clang++-14 -Xclang -ast-dump=json).  The translation is syntax directed over a small subset of C++
(integer literals, begin[i], locals, & | << + - comparisons && ||, casts, calls of the two helpers, *mblen = k, return, throw,
if / else-if chains).  C's integer semantics is tracked with a value kind per expression:

  U(e, bits)   a non-negative value < 2^bits, e is a Lean Nat expression with that value
  SC(u)        a (possibly int-promoted, sign-extended) signed char whose unsigned byte is the Nat expression u
  NEG(c)       the negative literal -c
  B(e)         bool

and every rule that is only sound under a side condition checks it (e.g. `signed_char & K` = `byte &&& K` needs 0 <= K <= 0xFF;
`x << k` must stay below 2^31).  Anything outside the subset, or a violated side condition, raises Untranslatable: the generated
file is then not rewritten and the check reports a broken obligation for the properties that rest on the decoder (DEPENDENT).
"""
import json, os, subprocess, sys

VERIF = os.path.dirname(os.path.dirname(os.path.abspath(__file__)))
REPO = os.environ.get("VERIF_REPO", "/repo")
OUT = os.path.join(VERIF, "lean", "PV", "Gen", "Utf8.lean")


DEPENDENT = ("C07", "C12", "C18")       # properties whose theorems are about (or built on) the generated decoder


class Untranslatable(Exception):
    pass


def load_ast(func):
    p = subprocess.run(["clang++-14", "-std=gnu++17", "-x", "c++", "-fsyntax-only", "-I" + REPO, "-Xclang", "-ast-dump=json",
                        "-Xclang", "-ast-dump-filter=" + func, os.path.join(REPO, "util", "utf8.hh")],
                       stdout=subprocess.PIPE, stderr=subprocess.PIPE)
    txt = p.stdout.decode()
    dec, i, objs = json.JSONDecoder(), 0, []
    while i < len(txt):
        while i < len(txt) and txt[i] in " \n\r\t":
            i += 1
        if i >= len(txt):
            break
        o, i = dec.raw_decode(txt, i)
        objs.append(o)
    fns = [o for o in objs if o.get("kind") == "FunctionDecl" and o.get("name") == func and any(c.get("kind") == "CompoundStmt" for c in o.get("inner", []))]
    if len(fns) != 1:
        raise Untranslatable(f"expected exactly one definition of {func}, found {len(fns)} ({p.stderr.decode()[-300:]})")
    return fns[0]


def hexlit(v):
    return hex(v) if v >= 10 else str(v)


BITS = {"char": 8, "signed char": 8, "unsigned char": 8, "int": 32, "unsigned int": 32, "long": 64, "unsigned long": 64, "size_t": 64,
        "const size_t": 64, "util::uint32": 32, "uint32": 32, "util::char32": 32, "const util::char32": 32, "char32_t": 32, "bool": 1,
        "const char": 8, "uint32_t": 32}
SIGNED = {"char", "signed char", "int", "long", "const char"}


class Tr:
    def __init__(self, env):
        self.env = dict(env)          # C variable name -> value kind
        self.used_bytes = set()

    # ---- expressions
    def ty(self, n):
        return (n.get("type") or {}).get("qualType", "")

    def expr(self, n):
        k = n["kind"]
        inner = n.get("inner", [])
        if k in ("ParenExpr", "ExprWithCleanups", "ConstantExpr"):
            v = self.expr(inner[0])
            return self.paren(v) if k == "ParenExpr" else v
        if k == "IntegerLiteral":
            v = int(n["value"])
            return ("U", hexlit(v), max(v.bit_length(), 1))
        if k == "CXXBoolLiteralExpr":
            return ("B", "true" if n["value"] else "false")
        if k == "DeclRefExpr":
            name = n["referencedDecl"]["name"]
            if name not in self.env:
                raise Untranslatable(f"reference to {name}")
            return self.env[name]
        if k == "ArraySubscriptExpr":
            base, idx = inner
            while base["kind"] in ("ImplicitCastExpr", "ParenExpr"):
                base = base["inner"][0]
            if base["kind"] != "DeclRefExpr" or base["referencedDecl"]["name"] != "begin" or idx["kind"] != "IntegerLiteral":
                raise Untranslatable("subscript other than begin[<literal>]")
            i = int(idx["value"])
            self.used_bytes.add(i)
            return ("SC", f"b{i}")
        if k in ("ImplicitCastExpr", "CXXStaticCastExpr", "CStyleCastExpr", "CXXFunctionalCastExpr"):
            ck = n.get("castKind", "")
            v = self.expr(inner[0])
            if ck in ("LValueToRValue", "NoOp", "FunctionToPointerDecay"):
                if k != "ImplicitCastExpr":
                    return self.convert(v, self.ty(n))
                return v
            if ck in ("IntegralCast", "IntegralToBoolean"):
                return self.convert(v, self.ty(n))
            raise Untranslatable(f"cast kind {ck}")
        if k == "UnaryOperator":
            op = n["opcode"]
            if op == "-" and inner[0]["kind"] == "IntegerLiteral":
                return ("NEG", int(inner[0]["value"]))
            if op == "!":
                v = self.expr(inner[0])
                if v[0] != "B":
                    raise Untranslatable("! on non-bool")
                return ("B", f"!({v[1]})")
            raise Untranslatable(f"unary {op}")
        if k == "BinaryOperator":
            return self.binop(n["opcode"], self.expr(inner[0]), self.expr(inner[1]), self.ty(n))
        if k == "CallExpr":
            callee = inner[0]
            while callee["kind"] in ("ImplicitCastExpr", "ParenExpr"):
                callee = callee["inner"][0]
            name = callee.get("referencedDecl", {}).get("name")
            args = [self.expr(a) for a in inner[1:]]
            if name == "IsTrailByte" and len(args) == 1:
                return ("B", f"isTrailByte {self.atom(self.as_byte(args[0]))}")
            if name == "IsValidCodepoint" and len(args) == 1:
                a = args[0]
                if a[0] != "U":
                    raise Untranslatable("IsValidCodepoint of a possibly negative value")
                e = a[1] if a[2] <= 32 else f"({a[1]} % 0x100000000)"
                return ("B", f"isValidCodepoint {self.atom(e)}")
            raise Untranslatable(f"call of {name}")
        raise Untranslatable(f"expression kind {k}")

    def atom(self, e):
        return e if all(c.isalnum() or c == "_" for c in e) or (e.startswith("(") and e.endswith(")") and self.balanced(e[1:-1])) else f"({e})"

    @staticmethod
    def balanced(s):
        d = 0
        for c in s:
            d += c == "("
            d -= c == ")"
            if d < 0:
                return False
        return d == 0

    def paren(self, v):
        if v[0] in ("U", "B", "SC"):
            e = v[1]
            e = e if e.startswith("(") and e.endswith(")") and self.balanced(e[1:-1]) else (e if all(c.isalnum() or c == "_" for c in e) else f"({e})")
            return (v[0], e) + tuple(v[2:])
        return v

    def as_byte(self, v):
        """the unsigned byte of a value converted to `char`"""
        if v[0] == "SC":
            return v[1]
        if v[0] == "U":
            return v[1] if v[2] <= 8 else f"({v[1]} % 256)"
        raise Untranslatable("conversion to char of " + v[0])

    def convert(self, v, t):
        t = t.replace("const ", "").strip()
        if t not in BITS:
            raise Untranslatable(f"type {t}")
        bits = BITS[t]
        if t == "bool":
            if v[0] == "B":
                return v
            raise Untranslatable("integral to bool")
        if v[0] == "B":
            raise Untranslatable("bool to integer")
        if v[0] == "NEG":
            if t in SIGNED:
                return v
            raise Untranslatable("negative literal to unsigned")
        if v[0] == "SC":
            if t in SIGNED:
                return v                                  # sign extension keeps the representation
            if bits == 8:
                return ("U", v[1], 8)                     # unsigned char: the byte itself
            raise Untranslatable("signed char to a wider unsigned type (sign extension)")
        # U
        e, b = v[1], v[2]
        if t in ("char", "signed char"):
            return ("SC", e if b <= 8 else f"({e} % 256)")
        if t in SIGNED:
            if b < bits:
                return v
            raise Untranslatable("unsigned value may not fit the signed type")
        if b <= bits:
            return v
        return ("U", f"({e} % {hexlit(1 << bits)})", bits)

    def binop(self, op, a, b, t):
        ka, kb = a[0], b[0]
        if op in ("&&", "||"):
            if ka != "B" or kb != "B":
                raise Untranslatable(f"{op} on non-bool")
            return ("B", f"{a[1]} {op} {b[1]}")
        if op == "&":
            if ka == "SC" and kb == "SC":
                return ("SC", f"({a[1]} &&& {b[1]})")
            if ka == "SC" and kb == "U":
                if b[2] > 8:
                    raise Untranslatable("signed char & mask wider than 8 bits")
                return ("U", f"{self.atom(a[1])} &&& {self.atom(b[1])}", 8)
            if ka == "U" and kb == "SC":
                if a[2] > 8:
                    raise Untranslatable("mask wider than 8 bits & signed char")
                return ("U", f"{self.atom(a[1])} &&& {self.atom(b[1])}", 8)
            if ka == "U" and kb == "U":
                return ("U", f"{self.atom(a[1])} &&& {self.atom(b[1])}", min(a[2], b[2]))
        if op == "|" and ka == "U" and kb == "U":
            return ("U", f"{self.atom(a[1])} ||| {self.atom(b[1])}", max(a[2], b[2]))
        if op == "<<" and ka == "U" and kb == "U":
            try:
                k = int(b[1], 0)
            except ValueError:
                raise Untranslatable("shift by a non-literal")
            if a[2] + k > 31:
                raise Untranslatable("left shift may overflow int")
            return ("U", f"{self.atom(a[1])} <<< {k}", a[2] + k)
        if op == "+" and ka == "U" and kb == "U":
            bits = BITS.get(t.replace("const ", ""), 64)
            nb = max(a[2], b[2]) + 1
            e = f"{self.atom(a[1])} + {self.atom(b[1])}"
            return ("U", e, nb) if nb <= bits else ("U", f"(({e}) % {hexlit(1 << bits)})", bits)
        if op == "-" and ka == "U" and kb == "U":
            tt = t.replace("const ", "")
            if tt in SIGNED or tt not in BITS:
                raise Untranslatable("signed subtraction")
            m = 1 << BITS[tt]
            return ("U", f"(({self.atom(a[1])} + {hexlit(m)} - {self.atom(b[1])}) % {hexlit(m)})", BITS[tt])
        if op in ("<", "<=", ">", ">=", "==", "!="):
            sym = {"<": "<", "<=": "≤", ">": ">", ">=": "≥", "==": "==", "!=": "!="}[op]
            if ka == "U" and kb == "U":
                return ("B", f"{self.atom(a[1])} {sym} {self.atom(b[1])}")
            if ka == "SC" and kb == "NEG" and 1 <= b[1] <= 128 and op in ("<", "<="):
                # sc < -c  <=>  the byte is >= 0x80 (negative) and byte - 256 < -c
                hi = 256 - b[1]
                return ("B", f"0x80 ≤ {self.atom(a[1])} && {self.atom(a[1])} {sym} {hexlit(hi)}")
            if ka == "SC" and kb == "NEG" and 1 <= b[1] <= 128 and op in (">", ">="):
                hi = 256 - b[1]
                return ("B", f"{self.atom(a[1])} < 0x80 || {self.atom(a[1])} {sym} {hexlit(hi)}")
            if ka == "SC" and kb == "U" and op in ("<", "<="):
                return ("B", f"0x80 ≤ {self.atom(a[1])} || {self.atom(a[1])} {sym} {self.atom(b[1])}")
            if ka == "SC" and kb == "U" and op in (">", ">="):
                return ("B", f"{self.atom(a[1])} < 0x80 && {self.atom(a[1])} {sym} {self.atom(b[1])}")
        raise Untranslatable(f"operator {op} on {ka}, {kb}")


def direct_bytes(stmts):
    """begin[i] indices used by a block's own expressions: declarations, returns, assignments and the conditions of its
    if / else-if chains (not inside nested blocks)"""
    found = set()

    def walk_expr(n):
        if n.get("kind") == "ArraySubscriptExpr":
            idx = n["inner"][1]
            if idx.get("kind") == "IntegerLiteral":
                found.add(int(idx["value"]))
        for c in n.get("inner", []):
            walk_expr(c)

    def walk_stmt(s):
        k = s.get("kind")
        if k == "CompoundStmt":
            return
        if k == "IfStmt":
            parts = s["inner"]
            walk_expr(parts[0])
            if len(parts) > 2:
                walk_stmt(parts[2])          # else branch: an else-if chain belongs to this level
            return
        walk_expr(s)
    for s in stmts:
        walk_stmt(s)
    return found


def translate_decode(fn):
    body = [c for c in fn["inner"] if c["kind"] == "CompoundStmt"][0]
    tr = Tr({"len": ("U", "len", 64)})
    bound = set()

    def block(stmts, mblen, indent, fallthrough):
        """translate a statement list; `fallthrough` = Lean text for "control reaches the end of this list" """
        pad = "  " * indent
        need = sorted(direct_bytes(stmts) - bound)
        lines = []
        for i in need:
            bound.add(i)
            lines.append(f"{pad}let b{i} := byteAt bs {i}")
        res = stmt_list(stmts, mblen, indent, fallthrough)
        for i in need:
            bound.discard(i)
        return "\n".join(lines + [res]) if lines else res

    def stmt_list(stmts, mblen, indent, fallthrough):
        pad = "  " * indent
        if not stmts:
            return f"{pad}{fallthrough(mblen)}"
        s, rest = stmts[0], stmts[1:]
        k = s["kind"]
        if k == "DeclStmt":
            out = []
            for d in s["inner"]:
                if d["kind"] != "VarDecl" or not d.get("inner"):
                    raise Untranslatable("declaration without initialiser")
                name = d["name"]
                if name == "len":
                    # const size_t len = end - begin: the window length, a parameter of the model
                    tr.env["len"] = ("U", "len", 64)
                    continue
                v = tr.convert(tr.expr(d["inner"][0]), d["type"]["qualType"])
                if v[0] != "U":
                    raise Untranslatable("local of non-unsigned kind")
                e = v[1]
                if e.startswith("(") and e.endswith(")") and Tr.balanced(e[1:-1]):
                    e = e[1:-1]
                out.append(f"{pad}let {name} := {e}")
                tr.env[name] = ("U", name, v[2])
            return "\n".join(out + [stmt_list(rest, mblen, indent, fallthrough)]) if out else stmt_list(rest, mblen, indent, fallthrough)
        if k == "BinaryOperator" and s.get("opcode") == "=":
            lhs, rhs = s["inner"]
            if lhs["kind"] == "UnaryOperator" and lhs.get("opcode") == "*":
                v = tr.expr(rhs)
                if v[0] != "U":
                    raise Untranslatable("*mblen = non-unsigned")
                return stmt_list(rest, v[1], indent, fallthrough)
            raise Untranslatable("assignment to something other than *mblen")
        if k == "ReturnStmt":
            v = tr.expr(s["inner"][0])
            if v[0] != "U" or mblen is None:
                raise Untranslatable("return of a non-unsigned value or before *mblen is set")
            return f"{pad}some ({v[1]}, {int(mblen, 0)})"
        if k in ("ExprWithCleanups", "CXXThrowExpr"):
            node = s
            while node["kind"] != "CXXThrowExpr":
                if not node.get("inner"):
                    raise Untranslatable("statement " + k)
                node = node["inner"][0]
            return f"{pad}none"
        if k == "IfStmt":
            parts = s["inner"]
            cond = tr.expr(parts[0])
            if cond[0] != "B":
                raise Untranslatable("if condition is not bool")
            after = lambda m: one_line(stmt_list(rest, m, 0, fallthrough))       # what follows the if statement
            then_stmts = parts[1]["inner"] if parts[1]["kind"] == "CompoundStmt" else [parts[1]]
            then_txt = block(then_stmts, mblen, indent + 1, after)
            if len(parts) > 2:
                els = parts[2]
                els_stmts = els.get("inner", []) if els["kind"] == "CompoundStmt" else [els]
                else_txt = stmt_list(els_stmts, mblen, indent, after) if els["kind"] == "IfStmt" else block(els_stmts, mblen, indent + 1, after)
            else:
                else_txt = None
            tt = then_txt.strip()
            if "\n" not in then_txt and else_txt is not None and "\n" not in else_txt and not else_txt.strip().startswith("if "):
                return f"{pad}if {cond[1]} then {tt} else {else_txt.strip()}"
            if else_txt is None:
                ft = after(mblen)
                if "\n" not in then_txt:
                    return f"{pad}if {cond[1]} then {tt} else {ft}"
                return f"{pad}if {cond[1]} then\n{then_txt}\n{pad}else {ft}"
            head = f"{pad}if {cond[1]} then {tt}" if "\n" not in then_txt else f"{pad}if {cond[1]} then\n{then_txt}"
            if else_txt.strip().startswith("if "):
                return head + "\n" + f"{pad}else " + else_txt.strip()
            return head + "\n" + f"{pad}else\n" + else_txt
        raise Untranslatable("statement kind " + k)

    def one_line(t):
        return " ".join(x.strip() for x in t.split("\n"))

    stmts = body["inner"]
    text = block(stmts, None, 1, lambda m: "none")
    return text


def translate_bool_fn(fn, param_kind):
    body = [c for c in fn["inner"] if c["kind"] == "CompoundStmt"][0]
    parm = [c for c in fn["inner"] if c["kind"] == "ParmVarDecl"]
    if len(parm) != 1 or len(body["inner"]) != 1 or body["inner"][0]["kind"] != "ReturnStmt":
        raise Untranslatable(fn["name"] + " is not a single return statement")
    tr = Tr({parm[0]["name"]: param_kind})
    v = tr.expr(body["inner"][0]["inner"][0])
    if v[0] != "B":
        raise Untranslatable(fn["name"] + " does not return bool")
    return v[1]


def load_record(name):
    p = subprocess.run(["clang++-14", "-std=gnu++17", "-x", "c++", "-fsyntax-only", "-I" + REPO, "-Xclang", "-ast-dump=json",
                        "-Xclang", "-ast-dump-filter=" + name, os.path.join(REPO, "util", "utf8.hh")],
                       stdout=subprocess.PIPE, stderr=subprocess.PIPE)
    txt = p.stdout.decode()
    dec, i, objs = json.JSONDecoder(), 0, []
    while i < len(txt):
        while i < len(txt) and txt[i] in " \n\r\t":
            i += 1
        if i >= len(txt):
            break
        o, i = dec.raw_decode(txt, i)
        objs.append(o)
    recs = [o for o in objs if o.get("kind") == "CXXRecordDecl" and o.get("name") == name and o.get("inner")]
    if len(recs) != 1:
        raise Untranslatable(f"expected one definition of class {name}")
    return recs[0]


def member_call(n):
    """(method, object member) of a call like remaining_.begin(), looking through implicit casts"""
    while n.get("kind") in ("ImplicitCastExpr", "ParenExpr", "MaterializeTemporaryExpr", "ExprWithCleanups", "CXXBindTemporaryExpr"):
        n = n["inner"][0]
    if n.get("kind") != "CXXMemberCallExpr":
        return None
    m = n["inner"][0]
    if m.get("kind") != "MemberExpr":
        return None
    obj = m["inner"][0]
    while obj.get("kind") in ("ImplicitCastExpr", "ParenExpr"):
        obj = obj["inner"][0]
    if obj.get("kind") != "MemberExpr" or obj["inner"][0].get("kind") != "CXXThisExpr":
        return None
    return (m.get("name"), obj.get("name"), len(n["inner"]) - 1)


def check_iterator():
    """DecodeUTF8Iterator::operator++ is modelled by hand (PV.Utf8.decodeAllFuel: decode the WHOLE remaining text, drop mblen bytes).
    The translator verifies the three facts that model rests on: the prefix removed is current_.size(); DecodeUTF8 is handed exactly
    [remaining_.begin(), remaining_.end()); the new current_ is StringPiece(remaining_.data(), length)."""
    rec = load_record("DecodeUTF8Iterator")
    ops = [m for m in rec["inner"] if m.get("kind") == "CXXMethodDecl" and m.get("name") == "operator++"
           and not any(c.get("kind") == "ParmVarDecl" for c in m.get("inner", [])) and any(c.get("kind") == "CompoundStmt" for c in m.get("inner", []))]
    if len(ops) != 1:
        raise Untranslatable("DecodeUTF8Iterator::operator++() not found")
    body = [c for c in ops[0]["inner"] if c["kind"] == "CompoundStmt"][0]["inner"]
    first = body[0]
    ok = first.get("kind") == "CXXMemberCallExpr" and member_call(first) == ("remove_prefix", "remaining_", 1) and member_call(first["inner"][1]) == ("size", "current_", 0)
    if not ok:
        raise Untranslatable("operator++ no longer starts with remaining_.remove_prefix(current_.size())")
    calls = []

    def walk(n):
        if n.get("kind") == "CallExpr":
            callee = n["inner"][0]
            while callee.get("kind") in ("ImplicitCastExpr", "ParenExpr"):
                callee = callee["inner"][0]
            if callee.get("referencedDecl", {}).get("name") == "DecodeUTF8":
                calls.append(n)
        for c in n.get("inner", []):
            walk(c)
    for st in body:
        walk(st)
    if len(calls) != 1:
        raise Untranslatable("operator++ does not call DecodeUTF8 exactly once")
    a = calls[0]["inner"][1:]
    if len(a) != 3 or member_call(a[0]) != ("begin", "remaining_", 0) or member_call(a[1]) != ("end", "remaining_", 0):
        raise Untranslatable("operator++ no longer hands exactly [remaining_.begin(), remaining_.end()) to DecodeUTF8")
    temps = []

    def walk2(n):
        if n.get("kind") == "CXXTemporaryObjectExpr" and "StringPiece" in (n.get("type") or {}).get("qualType", ""):
            temps.append(n)
        for c in n.get("inner", []):
            walk2(c)
    for st in body:
        walk2(st)
    good = [t for t in temps if len(t.get("inner", [])) == 2 and member_call(t["inner"][0]) == ("data", "remaining_", 0)]
    if not good:
        raise Untranslatable("operator++ no longer sets current_ = StringPiece(remaining_.data(), length)")


def generate():
    """returns (changed, error).  On error the previous generated file is left in place (the shared model driver still has to
    build for the other properties) and the caller reports a broken obligation for the properties that rest on the decoder."""
    try:
        trail = translate_bool_fn(load_ast("IsTrailByte"), ("SC", "b"))
        valid = translate_bool_fn(load_ast("IsValidCodepoint"), ("U", "c", 32))
        dec = translate_decode(load_ast("DecodeUTF8"))
        check_iterator()
    except Untranslatable as e:
        return False, f"util/utf8.hh is outside the translator's subset, PV/Gen/Utf8.lean could not be regenerated: {e}"
    except Exception as e:       # a statement or expression shape the translator has no rule for (e.g. an empty branch): same verdict
        return False, f"util/utf8.hh is outside the translator's subset, PV/Gen/Utf8.lean could not be regenerated: unexpected shape ({type(e).__name__}: {e})"
    text = f"""/- GENERATED by tools/gen_utf8.py from {REPO if REPO == '/repo' else '/repo'}/util/utf8.hh (clang AST).  Do not edit.
   IsTrailByte / IsValidCodepoint / DecodeUTF8 as the source has them now; bytes are their unsigned values, the C integer
   conversions have been resolved by the translator (see its header for the rules and side conditions).
   DecodeUTF8Iterator::operator++ was checked to remove current_.size() bytes, to hand [remaining_.begin(), remaining_.end()) to
   DecodeUTF8 and to set current_ = StringPiece(remaining_.data(), length): the shape PV.Utf8.decodeAllFuel is written for. -/
namespace PV.Utf8

/-- `IsTrailByte(char x)` on the unsigned value of the byte -/
def isTrailByte (b : Nat) : Bool := {trail}

/-- `IsValidCodepoint(char32 c)` -/
def isValidCodepoint (c : Nat) : Bool := {valid}

/-- `begin[i]` as an unsigned byte (0 beyond the window; every use is guarded by a length test) -/
def byteAt (bs : List UInt8) (i : Nat) : Nat := (bs.getD i 0).toNat

/-- `DecodeUTF8(begin, end, &mblen)`: `some (codepoint, mblen)` or `none` for the throw.
    The C++ presumes `end > begin`; the empty window is `none`. -/
def decode (bs : List UInt8) : Option (Nat × Nat) :=
  let len := bs.length
  if len = 0 then none else
{dec}

end PV.Utf8
"""
    old = open(OUT).read() if os.path.exists(OUT) else None
    if old != text:
        os.makedirs(os.path.dirname(OUT), exist_ok=True)
        open(OUT, "w").write(text)
        return True, None
    return False, None


if __name__ == "__main__":
    ch, err = generate()
    print("changed" if ch else "unchanged", err or "")
    if not err:
        print(open(OUT).read())
