#!/usr/bin/env python3
"""Build /repo's current working tree (hooks on) into /verif/.cache/<treehash>/<flavour>.

flavours:
  san : RelWithDebInfo + ASan + UBSan, -DPREPROCESS_VERIF   (default; binaries + libs + harness)
  rel : RelWithDebInfo, -DPREPROCESS_VERIF                  (valgrind / timing sensitive runs)

`ensure(flavour)` returns the build directory, building it if the hash of the current
tree has no cached build.  At most KEEP trees are kept.  The repo path can be overridden
with VERIF_REPO (used only by our own mutant self-tests on scratch copies).
"""
import hashlib, os, shutil, subprocess, sys, time, fcntl

VERIF = os.path.dirname(os.path.dirname(os.path.abspath(__file__)))
REPO = os.environ.get("VERIF_REPO", "/repo")
CACHE = os.path.join(VERIF, ".cache")
KEEP = 2
GUARD = "PREPROCESS_VERIF"
SRC_DIRS = ["util", "preprocess", "moses"]
SRC_TOP = ["CMakeLists.txt", "FindICU.cmake"]

# vptr is excluded: ReadStream::Read calls the non-static (but state-free) ReadBase::Current after `delete this`; only the
# sanitizer's own vptr check touches the freed object.  alignment: Murmur's intentional unaligned uint64 loads.
# shift-base and signed-integer-overflow are excluded: the base64 accumulators overflow `int` by design of the
# algorithm (only low bits are read); gcc wraps, the model proves the result right under wrap-around (DESIGN 7).
SAN_FLAGS = ("-fsanitize=address,undefined -fno-sanitize=shift-base,signed-integer-overflow,alignment,vptr "
             "-fno-sanitize-recover=all -fno-omit-frame-pointer")


def tree_hash(repo=None):
    repo = repo or REPO
    h = hashlib.sha256()
    files = []
    for d in SRC_DIRS:
        for root, dirs, fs in os.walk(os.path.join(repo, d)):
            dirs.sort()
            for f in sorted(fs):
                if f.endswith((".swp", ".o", ".orig", ".rej")):
                    continue
                files.append(os.path.join(root, f))
    for f in SRC_TOP:
        files.append(os.path.join(repo, f))
    for p in sorted(files):
        if not os.path.isfile(p):
            continue
        h.update(os.path.relpath(p, repo).encode() + b"\0")
        with open(p, "rb") as fh:
            h.update(fh.read())
        h.update(b"\0")
    h.update(SAN_FLAGS.encode())
    # the harness is part of what gets built
    for root, dirs, fs in os.walk(os.path.join(VERIF, "harness")):
        dirs.sort()
        for f in sorted(fs):
            if f.endswith((".cc", ".hh", ".c", ".h")):
                p = os.path.join(root, f)
                h.update(b"H:" + f.encode() + b"\0")
                with open(p, "rb") as fh:
                    h.update(fh.read())
    return h.hexdigest()[:16]


def repo_only_hash(repo=None):
    """hash of the repo sources only (no harness) - recorded in evidence."""
    repo = repo or REPO
    h = hashlib.sha256()
    for d in SRC_DIRS:
        for root, dirs, fs in os.walk(os.path.join(repo, d)):
            dirs.sort()
            for f in sorted(fs):
                p = os.path.join(root, f)
                h.update(os.path.relpath(p, repo).encode() + b"\0")
                with open(p, "rb") as fh:
                    h.update(fh.read())
    return h.hexdigest()[:16]


def _run(cmd, cwd=None, log=None, env=None):
    p = subprocess.run(cmd, cwd=cwd, stdout=subprocess.PIPE, stderr=subprocess.STDOUT, env=env)
    if log:
        with open(log, "ab") as f:
            f.write(("$ " + " ".join(cmd) + "\n").encode())
            f.write(p.stdout)
    return p.returncode, p.stdout.decode(errors="replace")


def _prune(keep_hash):
    if not os.path.isdir(CACHE):
        return
    ents = []
    for e in os.listdir(CACHE):
        p = os.path.join(CACHE, e)
        if os.path.isdir(p) and len(e) == 16 and e != keep_hash:
            ents.append((os.path.getmtime(p), p))
    ents.sort(reverse=True)
    for _, p in ents[KEEP - 1:]:
        shutil.rmtree(p, ignore_errors=True)


HARNESS_LIBS = ["-lboost_program_options", "-lz", "-lbz2", "-llzma", "-licui18n", "-licuuc", "-licudata",
                "-licuio", "-lpthread", "-lrt"]


def build_harness(bdir, flavour):
    """compile harness/*.cc against the freshly built static libs."""
    hdir = os.path.join(VERIF, "harness")
    out = os.path.join(bdir, "harness")
    os.makedirs(out, exist_ok=True)
    log = os.path.join(bdir, "harness.log")
    flags = ["-std=gnu++17", "-O1", "-g", "-D" + GUARD, "-DNDEBUG", "-DHAVE_ZLIB", "-DHAVE_BZLIB", "-DHAVE_XZLIB",
             "-DHAVE_ICU", "-I" + REPO, "-I" + hdir, "-Wno-deprecated-declarations"]
    if flavour == "san":
        flags += SAN_FLAGS.split()
    libs = [os.path.join(bdir, "lib", l) for l in
            ["libbase64.a", "libfields.a", "libwarc.a", "libcaptive_child.a", "libpreprocess_icu.a",
             "libpreprocess_util.a"]]
    libs = [l for l in libs if os.path.exists(l)]
    jobs = []
    for f in sorted(os.listdir(hdir)):
        if f.endswith("_main.cc"):
            exe = os.path.join(out, f[:-8])
            cmd = ["g++"] + flags + [os.path.join(hdir, f), "-o", exe] + libs + HARNESS_LIBS
            jobs.append((f, subprocess.Popen(cmd, stdout=subprocess.PIPE, stderr=subprocess.STDOUT), cmd))
        elif f.endswith("_preload.c"):
            so = os.path.join(out, f[:-2] + ".so")
            cmd = ["gcc", "-O1", "-g", "-shared", "-fPIC", os.path.join(hdir, f), "-o", so, "-ldl"]
            jobs.append((f, subprocess.Popen(cmd, stdout=subprocess.PIPE, stderr=subprocess.STDOUT), cmd))
    ok = True
    msgs = []
    for f, p, cmd in jobs:
        o, _ = p.communicate()
        with open(log, "ab") as fh:
            fh.write(("$ " + " ".join(cmd) + "\n").encode() + o)
        if p.returncode != 0:
            ok = False
            msgs.append(f + ":\n" + o.decode(errors="replace")[-3000:])
    return ok, "\n".join(msgs)


def ensure(flavour="san", quiet=False):
    """returns (bdir, info) ; raises BuildError on failure"""
    os.makedirs(CACHE, exist_ok=True)
    th = tree_hash()
    bdir = os.path.join(CACHE, th, flavour)
    stamp = os.path.join(bdir, "BUILD_OK")
    lockf = open(os.path.join(CACHE, "build.lock"), "w")
    fcntl.flock(lockf, fcntl.LOCK_EX)
    try:
        if os.path.exists(stamp):
            os.utime(os.path.join(CACHE, th))
            return bdir, {"tree_hash": th, "cached": True, "build_s": 0.0}
        t0 = time.time()
        _prune(th)
        if os.path.isdir(bdir):
            shutil.rmtree(bdir)
        os.makedirs(bdir)
        log = os.path.join(bdir, "build.log")
        cxx = "-Wno-error -D" + GUARD
        if flavour == "san":
            cxx += " " + SAN_FLAGS
        cmd = ["cmake", "-G", "Ninja", "-S", REPO, "-B", bdir, "-DCMAKE_BUILD_TYPE=RelWithDebInfo",
               "-DCOMPILE_TESTS=OFF", "-DCMAKE_CXX_FLAGS=" + cxx,
               "-DCMAKE_CXX_FLAGS_RELWITHDEBINFO=-O1 -g -DNDEBUG" if flavour == "san" else
               "-DCMAKE_CXX_FLAGS_RELWITHDEBINFO=-O2 -g -DNDEBUG"]
        if flavour == "san":
            cmd.append("-DCMAKE_EXE_LINKER_FLAGS=" + SAN_FLAGS)
        rc, out = _run(cmd, log=log)
        if rc != 0:
            raise BuildError("cmake configure failed:\n" + out[-3000:])
        rc, out = _run(["cmake", "--build", bdir, "-j", "16"], log=log)
        if rc != 0:
            raise BuildError("build of /repo failed:\n" + out[-4000:])
        ok, msg = build_harness(bdir, flavour)
        if not ok:
            raise BuildError("harness build failed:\n" + msg)
        with open(stamp, "w") as f:
            f.write(th + "\n")
        dt = time.time() - t0
        if not quiet:
            print(f"[build] {flavour} tree={th} built in {dt:.1f}s", file=sys.stderr)
        return bdir, {"tree_hash": th, "cached": False, "build_s": round(dt, 1)}
    finally:
        fcntl.flock(lockf, fcntl.LOCK_UN)
        lockf.close()


class BuildError(Exception):
    pass


if __name__ == "__main__":
    fl = sys.argv[1] if len(sys.argv) > 1 else "san"
    try:
        b, info = ensure(fl)
        print(b, info)
    except BuildError as e:
        print("BUILD FAILED\n" + str(e))
        sys.exit(2)
