#!/usr/bin/env python3
"""Translator: regenerate lean/PV/Gen/Consts.lean from /repo's current tree.

Values come from <bdir>/harness/consts (the C++ compiler evaluated them) plus a few
function-local literals that are extracted from the preprocessed source text
(MurmurHash64A's m and r; main()-local seeds).  The file is rewritten only when its
content changes, so an unchanged tree costs no Lean rebuild.
"""
import os, re, subprocess, sys

VERIF = os.path.dirname(os.path.dirname(os.path.abspath(__file__)))
REPO = os.environ.get("VERIF_REPO", "/repo")
OUT = os.path.join(VERIF, "lean", "PV", "Gen", "Consts.lean")


def strip_comments(src):
    src = re.sub(r"/\*.*?\*/", " ", src, flags=re.S)
    src = re.sub(r"//[^\n]*", " ", src)
    return src


def fn_body(src, header_re):
    m = re.search(header_re, src)
    if not m:
        return None
    i = src.index("{", m.end() - 1)
    depth = 0
    for j in range(i, len(src)):
        if src[j] == "{":
            depth += 1
        elif src[j] == "}":
            depth -= 1
            if depth == 0:
                return src[i:j + 1]
    return None


# ---- C19: the rule arrays of util/utf8_icu.cc as the SOURCE TEXT lists them, and which array is listed for which language.
# LISTED is specification, not code reading: the arrays' own names say whom they are for (kGeneralReplace: every language;
# kReplaceForEnglish*: English; kReplaceForFrench: French); kReplaceWithQuote is the straight-quote convention of English, German
# and Spanish (French has its own guillemet table, Czech quotes are an open TODO in the source).
LISTED = {"en": [("kGeneralReplace", False), ("kReplaceWithQuote", False), ("kReplaceForEnglishRightBoundary", True), ("kReplaceForEnglish", False)],
          "fr": [("kGeneralReplace", False), ("kReplaceForFrench", False)],
          "de": [("kGeneralReplace", False), ("kReplaceWithQuote", False)],
          "es": [("kGeneralReplace", False), ("kReplaceWithQuote", False)],
          "cs": [("kGeneralReplace", False)]}


def _c_unescape(t):
    out, i = [], 0
    while i < len(t):
        c = t[i]
        if c == "\\" and i + 1 < len(t):
            n = t[i + 1]
            if n == "u":
                out.append(chr(int(t[i + 2:i + 6], 16)))
                i += 6
                continue
            if n == "U":
                out.append(chr(int(t[i + 2:i + 10], 16)))
                i += 10
                continue
            out.append({"n": "\n", "t": "\t", "\\": "\\", '"': '"', "'": "'", "0": "\0"}.get(n, n))
            i += 2
            continue
        out.append(c)
        i += 1
    return "".join(out)


def flatten_source_arrays():
    """{array name: [(from, to), ...]} from the text of util/utf8_icu.cc (line comments removed, so a commented-out rule is no rule)"""
    src = open(os.path.join(REPO, "util/utf8_icu.cc"), encoding="utf-8").read()
    src = "\n".join(re.sub(r'^((?:[^"/]|"(?:[^"\\]|\\.)*"|/(?!/))*)//.*$', r"\1", ln) for ln in src.split("\n"))
    arrays = {}
    for m in re.finditer(r"const\s+ReplaceRule\s+(k\w+)\s*\[\s*\]\s*=\s*\{(.*?)\n\};", src, re.S):
        arrays[m.group(1)] = [(_c_unescape(a), _c_unescape(b)) for a, b in
                              re.findall(r'\{\s*"((?:[^"\\]|\\.)*)"\s*,\s*"((?:[^"\\]|\\.)*)"\s*\}', m.group(2))]
    return arrays


def _u16(t):
    b = t.encode("utf-16-le")
    return [int.from_bytes(b[i:i + 2], "little") for i in range(0, len(b), 2)]


def flatten_listed_tables():
    """the per-language tables that AddToFlatten builds from the LISTED arrays (same insertion rules as the C++):
    {lang: [(start cp, [(suffix units, to units, right_boundary)], fallback units)] sorted by cp}"""
    import unicodedata
    arrays = flatten_source_arrays()
    tables = {}
    for lang, groups in LISTED.items():
        t = {}
        for name, rb in groups:
            for frm, to in arrays[name]:
                to_u = _u16(unicodedata.normalize("NFKC", to))
                head, rest = frm[0], frm[1:]
                if not rest:
                    t.setdefault(ord(head), [[], []])[1] = to_u            # starts[c].character = to
                else:
                    t.setdefault(ord(head), [[], _u16(head)])[0].append((_u16(rest), to_u, rb))
        tables[lang] = [(cp, t[cp][0], t[cp][1]) for cp in sorted(t)]
    return tables


def text_consts():
    """function-local literals, read from the (comment-stripped) source text."""
    out = {}
    notes = []
    try:
        src = strip_comments(open(os.path.join(REPO, "util/murmur_hash.cc")).read())
        body = fn_body(src, r"uint64_t\s+MurmurHash64A\s*\([^)]*\)\s*\{")
        m = re.search(r"const\s+uint64_t\s+m\s*=\s*(0x[0-9a-fA-F]+)U?L?L?\s*;", body)
        r = re.search(r"const\s+int\s+r\s*=\s*(\d+)\s*;", body)
        out["murmurM"] = int(m.group(1), 16)
        out["murmurR"] = int(r.group(1))
    except Exception as e:  # a missing constant makes the Lean build fail, which is reported
        notes.append("murmur constants not found: %r" % (e,))
    def literal(name, path, rx):
        try:
            src = strip_comments(open(os.path.join(REPO, path)).read())
            ms = re.findall(rx, src)
            if len(ms) != 1:
                raise ValueError("expected exactly one match, found %d" % len(ms))
            out[name] = int(ms[0], 0)
        except Exception as e:
            notes.append("%s not found: %r" % (name, e))
    literal("dedupeLineSeed", "preprocess/dedupe_main.cc", r"MurmurHashNative\s*\(\s*line\.data\(\)\s*,\s*line\.size\(\)\s*,\s*(\d+)\s*\)")
    literal("dedupeFieldSeed", "preprocess/dedupe_main.cc", r"HashCallback\s+hasher\s*\(\s*(\d+)\s*\)")
    literal("cacheSeed", "preprocess/cache_main.cc", r"HashWithSeed\s*\(\s*\)\s*\{\s*hash\s*=\s*(\d+)\s*;")
    literal("cacheFlushRate", "preprocess/cache_main.cc", r"kFlushRate\s*=\s*(\d+)\s*;")
    # strip_cr arguments at call sites whose value the properties depend on
    def strip_cr_at(name, path, call_re, nargs_before):
        try:
            src = strip_comments(open(os.path.join(REPO, path)).read())
            ms = re.findall(call_re + r"\s*\(([^()]*)\)", src)
            if len(ms) != 1:
                raise ValueError("expected exactly one call, found %d" % len(ms))
            args = [a.strip() for a in ms[0].split(",")] if ms[0].strip() else []
            if len(args) <= nargs_before:
                out[name] = True        # default argument in util/file_piece.hh
            elif args[nargs_before] in ("true", "false"):
                out[name] = (args[nargs_before] == "true")
            else:
                raise ValueError("non-literal strip_cr argument " + args[nargs_before])
        except Exception as e:
            notes.append("%s not found: %r" % (name, e))
    strip_cr_at("docencEncodeStripCr", "preprocess/docenc_main.cc", r"in\.ReadLineOrEOF", 2)
    strip_cr_at("b64filterCollectStripCr", "preprocess/b64filter_main.cc", r"child_out\.ReadLine", 1)
    strip_cr_at("foldfilterCollectStripCr", "preprocess/foldfilter_main.cc", r"child_out\.ReadLine", 1)
    try:
        hh = strip_comments(open(os.path.join(REPO, "util/file_piece.hh")).read())
        d1 = re.search(r"ReadLine\s*\(\s*char\s+delim\s*=\s*'\\n'\s*,\s*bool\s+strip_cr\s*=\s*(true|false)\s*\)", hh)
        d2 = re.search(r"ReadLineOrEOF\s*\(\s*StringPiece\s*&\s*to\s*,\s*char\s+delim\s*=\s*'\\n'\s*,\s*bool\s+strip_cr\s*=\s*(true|false)\s*\)", hh)
        out["readLineDefaultStripCr"] = (d1.group(1) == "true")
        out["readLineOrEOFDefaultStripCr"] = (d2.group(1) == "true")
    except Exception as e:
        notes.append("ReadLine defaults not found: %r" % (e,))
    return out, notes


def lean_list(vals, per=16):
    rows = []
    for i in range(0, len(vals), per):
        rows.append("  " + ", ".join(vals[i:i + per]))
    return "[\n" + ",\n".join(rows) + "]"


def generate(bdir):
    exe = os.path.join(bdir, "harness", "consts")
    p = subprocess.run([exe], stdout=subprocess.PIPE, stderr=subprocess.PIPE, timeout=60)
    if p.returncode != 0:
        raise RuntimeError("consts dumper failed: " + p.stderr.decode(errors="replace")[-2000:])
    lines = ["/- GENERATED by tools/gen_consts.py from /repo's current tree.  Do not edit. -/",
             "namespace PV.Gen", ""]
    flat = {}
    waits = {"waitexit": [], "waitsig": []}
    for ln in p.stdout.decode().splitlines():
        w = ln.split()
        if not w:
            continue
        if w[0] in waits:
            waits[w[0]].append((int(w[1]), int(w[2])))
            continue
        if w[0] == "flat":
            def us(x):
                return "[]" if x == "-" else "[" + ", ".join(x.split(",")) + "]"
            lang, cp, fb, n = w[1], w[2], w[3], int(w[4])
            rules = []
            for i in range(n):
                rb, suf, to = w[5 + 3 * i: 8 + 3 * i]
                rules.append("⟨%s, %s, %s⟩" % (us(suf), us(to), "true" if rb == "1" else "false"))
            flat.setdefault(lang, []).append("  ⟨%s, [%s], %s⟩" % (cp, ", ".join(rules), us(fb)))
            continue
        kind, name, vals = w[0], w[1], w[2:]
        if kind == "nat":
            lines.append(f"def {name} : Nat := {vals[0]}")
        elif kind == "int":
            v = int(vals[0])
            lines.append(f"def {name} : Int := {v if v >= 0 else '(' + str(v) + ')'}")
        elif kind == "ints":
            vs = [str(int(v)) if int(v) >= 0 else f"({int(v)})" for v in vals]
            lines.append(f"def {name} : List Int := {lean_list(vs)}")
        elif kind == "bytes":
            h = vals[0] if vals else ""
            bs = [str(int(h[i:i + 2], 16)) for i in range(0, len(h), 2)]
            lines.append(f"def {name} : List UInt8 := {lean_list(bs)}")
        lines.append("")
    tc, notes = text_consts()
    for k, v in sorted(tc.items()):
        if isinstance(v, bool):
            lines.append(f"def {k} : Bool := {'true' if v else 'false'}")
        else:
            lines.append(f"def {k} : Nat := {v}")
        lines.append("")
    for n in notes:
        lines.append("-- NOTE: " + n)
    lines.append("end PV.Gen")
    txt = "\n".join(lines) + "\n"
    changed = _write_if_changed(OUT, txt)
    fl = ["/- GENERATED by tools/gen_consts.py from util/utf8_icu.cc's rule tables (as built by the C++ code).  Do not edit. -/",
          "import PV.Model.FlattenTypes", "namespace PV.Gen", "open PV.Flatten", ""]
    for lang in sorted(flat):
        fl.append(f"def flatten_{lang} : List Start := [\n" + ",\n".join(flat[lang]) + "]\n")
    fl.append("def flattenLangs : List (String × List Start) := [" + ", ".join(f'("{l}", flatten_{l})' for l in sorted(flat)) + "]")
    # the same tables built from the source text's arrays and the LISTED assignment of arrays to languages (specification side)
    try:
        listed = flatten_listed_tables()
        for lang in sorted(listed):
            il = lambda x: "[" + ", ".join(map(str, x)) + "]"
            rows = ["  ⟨%d, [%s], %s⟩" % (cp, ", ".join("⟨%s, %s, %s⟩" % (il(su), il(to), "true" if rb else "false") for su, to, rb in longer), il(fb))
                    for cp, longer, fb in listed[lang]]
            fl.append(f"\ndef flattenListed_{lang} : List Start := [\n" + ",\n".join(rows) + "]")
        fl.append("\ndef flattenListedLangs : List (String × List Start) := [" + ", ".join(f'("{l}", flattenListed_{l})' for l in sorted(listed)) + "]")
    except Exception as e:   # the Lean build then fails on the missing definition, which is reported
        fl.append("-- NOTE: rule arrays not found in util/utf8_icu.cc: %r" % (e,))
    fl.append("end PV.Gen")
    changed |= _write_if_changed(os.path.join(os.path.dirname(OUT), "Flatten.lean"), "\n".join(fl) + "\n")
    st = ["/- GENERATED by tools/gen_consts.py: what preprocess::Wait(child) returned, in this build, for children that exited", 
          "   with a code / were killed by a signal (harness/consts_main.cc forks them).  Do not edit. -/", "namespace PV.Gen", "",
          "/-- (exit code, Wait()) -/",
          "def waitExited : List (Nat × Int) := [" + ", ".join(f"({a}, {b})" for a, b in waits["waitexit"]) + "]", "",
          "/-- (fatal signal, Wait()) -/",
          "def waitSignalled : List (Nat × Int) := [" + ", ".join(f"({a}, {b})" for a, b in waits["waitsig"]) + "]", "", "end PV.Gen"]
    changed |= _write_if_changed(os.path.join(os.path.dirname(OUT), "Status.lean"), "\n".join(st) + "\n")
    return changed


def _write_if_changed(path, txt):
    old = open(path).read() if os.path.exists(path) else None
    if old != txt:
        os.makedirs(os.path.dirname(path), exist_ok=True)
        with open(path, "w") as f:
            f.write(txt)
        return True
    return False


if __name__ == "__main__":
    sys.path.insert(0, os.path.dirname(os.path.abspath(__file__)))
    import build
    bdir, info = build.ensure("san")
    print("changed" if generate(bdir) else "unchanged", OUT)
