#!/usr/bin/env python3
"""./check Cnn [--tier quick|thorough] [--replay file]   (see DESIGN.md section 5)"""
import argparse, re, importlib, json, os, sys, time, traceback

TOOLS = os.path.dirname(os.path.abspath(__file__))
sys.path.insert(0, TOOLS)
import pvlib, build as pvbuild, gen_consts, gen_utf8  # noqa: E402
from pvlib import Ctx  # noqa: E402


def lean_stage(ctx):
    """build the property's theorems and the driver against freshly generated constants;
    audit axioms.  Returns list of broken obligations (names)."""
    prop = ctx.prop
    names = pvlib.theorem_names(prop)
    mods = pvlib.lean_modules_of(prop)
    rc, out, dt = pvlib.lake_build(["PV.Props." + prop, "pvdriver"])
    broken = []
    info = {"obligations": len(names), "lake_build_s": round(dt, 1),
            "checker_cmd": f"cd /verif/lean && lake build PV.Props.{prop} pvdriver && lake env lean <#print axioms for {len(names)} theorems>"}
    driver_ok = True
    if rc != 0:
        fails = pvlib.failing_decls(out)
        ctx.notes.append({"lake_build_failed": fails[:10], "tail": out[-1500:]})
        for f in fails:
            broken.append(f"{f['file']}:{f['decl']}: {f['msg']}")
        if not fails:
            broken.append("lake build failed: " + out[-300:])
        rc2, out2, _ = pvlib.lake_build(["pvdriver"])
        driver_ok = (rc2 == 0)
        if not driver_ok:
            broken.append("pvdriver does not build")
    theorems = {}
    if rc == 0:
        ax, raw = pvlib.audit_axioms(prop, names)
        for n in names:
            a = ax.get(n, ["ERROR"])
            ok = set(a) <= pvlib.ALLOWED_AXIOMS
            theorems[n] = {"axioms": a, "ok": ok}
            if not ok:
                broken.append(f"PV.Props.{prop}.{n}: axioms {a}")
        hits = pvlib.grep_forbidden(mods)
        if hits:
            broken.append("forbidden construct: " + "; ".join(hits[:5]))
        if ctx.tier == "thorough":
            import subprocess
            t0 = time.time()
            p = subprocess.run(["lake", "env", "leanchecker", "PV.Props." + prop], cwd=pvlib.LEAN,
                               stdout=subprocess.PIPE, stderr=subprocess.STDOUT, timeout=3000)
            info["leanchecker"] = {"rc": p.returncode, "s": round(time.time() - t0, 1),
                                   "tail": p.stdout.decode(errors="replace")[-300:]}
            if p.returncode != 0:
                broken.append("leanchecker rejected PV.Props." + prop)
    info["theorems"] = theorems
    info["discharged"] = sum(1 for t in theorems.values() if t["ok"])
    info["trusted_base"] = [
        "Lean 4.33.0 kernel; axioms per theorem listed under coverage.theorems (allowed: propext, Classical.choice, Quot.sound)",
        "Lean compiler/runtime for pvdriver (native execution of the model definitions)",
        "tools/gen_consts.py + harness/consts_main.cc (translator for tables/constants, values printed by the C++ compiler)",
        "tools/gen_utf8.py (translator from clang's AST of util/utf8.hh to the Lean definitions of IsTrailByte / IsValidCodepoint / DecodeUTF8; its conversion rules and side conditions are in its header)",
        "the correspondence check (tools/props/%s.py, harness/impl_main.cc): bounded, seeded" % prop.lower(),
    ]
    info["modules"] = mods
    ctx.lean = info
    return broken, driver_ok


def main():
    ap = argparse.ArgumentParser()
    ap.add_argument("prop")
    ap.add_argument("--tier", default=os.environ.get("VERIF_TIER", "quick"))
    ap.add_argument("--replay")
    a = ap.parse_args()
    prop = a.prop.upper()
    tier = a.tier if a.tier in ("quick", "thorough") else "quick"
    try:
        seed = int(os.environ.get("VERIF_SEED", "1"))
    except ValueError:
        seed = 1
    os.makedirs(os.path.join(pvlib.VERIF, ".cache", "tmp"), exist_ok=True)
    ctx = Ctx(prop, tier, seed)
    mod = importlib.import_module("props." + prop.lower())
    try:
        ctx.bdir, ctx.build_info = pvbuild.ensure("san")
    except pvbuild.BuildError as e:
        print(f"[{prop}] cannot build /repo's working tree:\n{e}")
        ctx.cleanup()
        sys.exit(2)
    ctx.build_info["repo_hash"] = pvbuild.repo_only_hash()
    consts_err = None
    try:
        ctx.build_info["consts_regenerated"] = gen_consts.generate(ctx.bdir)
    except Exception as e:
        # the dumper runs the real code (tables, Wait() results, formatter sizes) under the sanitizers; if it dies the generated
        # constants are those of the previous run: every property's obligations are unconfirmed until a failing input shows why
        msg = str(e)
        m = re.search(r"SUMMARY: (\S+: \S+ [^\n]*)", msg)
        consts_err = ("the constants / rule tables could not be regenerated from the current tree: harness/consts_main.cc died"
                      + (" (" + m.group(1).strip() + ")" if m else ": " + msg.strip().split("\n")[-1][:200]))
        ctx.build_info["consts_regenerated"] = "FAILED"
        ctx.notes.append({"consts_dumper_failed": msg[-1500:]})
    utf8_changed, utf8_err = gen_utf8.generate()
    ctx.build_info["utf8_regenerated"] = utf8_changed
    broken, driver_ok = lean_stage(ctx)
    if consts_err:
        broken.append(consts_err)
    if utf8_err and prop in gen_utf8.DEPENDENT:
        broken.append(utf8_err)
    if a.replay:
        rp = json.load(open(a.replay))
        mod.replay(ctx, rp)
        ctx.cleanup()
        return 0
    if driver_ok:
        try:
            mod.run(ctx)
            if broken and not any(not v["no_input"] for v in ctx.violations) and hasattr(mod, "search"):
                mod.search(ctx, broken)
        except Exception:
            tb = traceback.format_exc()
            print(tb)
            ctx.notes.append({"check_crashed": tb[-2000:]})
            pvlib.report_violation(ctx, "check-crashed", {"traceback": tb}, no_input=True,
                                   summary="the check itself failed: " + tb.strip().split("\n")[-1])
    if broken and not any(not v["no_input"] for v in ctx.violations):
        pvlib.report_violation(ctx, "proof-broken", {"broken_obligations": broken,
                               "explanation": "these theorems / build steps no longer check against the constants and model "
                               "generated from the current tree; no concrete failing input was found by the search"},
                               no_input=True, summary="; ".join(broken)[:300])
    rc = pvlib.finish(ctx, mod.LEVEL, mod.RULE, mod.ASSUMPTIONS, getattr(mod, "extra_cov", lambda c: None)(ctx))
    sys.exit(rc)


if __name__ == "__main__":
    main()
