"""Shared machinery for the per-property checks (see DESIGN.md sections 2 and 5)."""
import json, os, random, re, subprocess, sys, time, hashlib, shutil, tempfile

TOOLS = os.path.dirname(os.path.abspath(__file__))
VERIF = os.path.dirname(TOOLS)
LEAN = os.path.join(VERIF, "lean")
REPO = os.environ.get("VERIF_REPO", "/repo")
PVDRIVER = os.path.join(LEAN, ".lake", "build", "bin", "pvdriver")
ALLOWED_AXIOMS = {"propext", "Classical.choice", "Quot.sound"}
FORBIDDEN = re.compile(r"\bsorry\b|\badmit\b|^\s*axiom\s|native_decide|bv_decide|implemented_by|\bunsafe\s|maxHeartbeats\s+0\b")

sys.path.insert(0, TOOLS)
import build as pvbuild  # noqa: E402


def hx(b: bytes) -> str:
    return b.hex() if b else "-"


def unhx(s: str) -> bytes:
    return b"" if s == "-" else bytes.fromhex(s)


# ----------------------------------------------------------------------------- drivers
LINE_RETRIES = [2]


def run_lines(exe, lines, timeout=600, env=None, per_line_timeout=None, stall=None):
    """_run_lines, and: a line that got no answer in time is asked once more, alone, with six times the limit (at most LINE_RETRIES[0]
    times per check) before 'HANG' stands - a busy machine is not a hanging program."""
    out = _run_lines(exe, lines, timeout, env, per_line_timeout, stall)
    for k, r in enumerate(out):
        if r == "HANG" and LINE_RETRIES[0] > 0:
            LINE_RETRIES[0] -= 1
            st = 6 * (stall or per_line_timeout or 90)
            again = _run_lines(exe, [lines[k]], max(timeout, st), env, None, st)
            if again and again[0] != "HANG":
                out[k] = again[0]
                # the lines skipped behind an abandoned one get their turn as well
                rest = [j for j in range(k + 1, len(out)) if out[j].startswith("HANG:")]
                if rest:
                    more = _run_lines(exe, [lines[j] for j in rest], timeout, env, per_line_timeout, stall)
                    for j, m_ in zip(rest, more):
                        out[j] = m_
    return out


def _run_lines(exe, lines, timeout=600, env=None, per_line_timeout=None, stall=None):
    """Feed `lines` (list of str) to a line-protocol driver; return list of output lines,
    one per input line.  If the driver dies (sanitizer abort, signal) on line k, that line's
    result is 'SAN:<kind>' / 'CRASH:<sig>' and the driver is restarted on the rest.  If it produces
    no new output line for `stall` seconds (default: 90, or per_line_timeout) the line it is working on
    is 'HANG' and the driver is restarted on the rest."""
    import threading, queue as _q
    stall = stall or per_line_timeout or 90
    out = []
    i = 0
    n = len(lines)
    restarts = 0
    hangs = 0
    t_end = time.time() + max(timeout, stall)
    while i < n:
        chunk = lines[i:]
        data = ("\n".join(chunk) + "\n").encode()
        for _attempt in range(60):
            # the model driver is replaced on disk while `lake build` relinks it (a concurrent run of another check)
            try:
                p = subprocess.Popen([exe], stdin=subprocess.PIPE, stdout=subprocess.PIPE, stderr=subprocess.PIPE, env=env)
                break
            except (FileNotFoundError, PermissionError, OSError):
                if _attempt == 59:
                    raise
                time.sleep(1)
        q = _q.Queue()
        errbuf = []

        def feed():
            try:
                p.stdin.write(data)
                p.stdin.close()
            except (BrokenPipeError, OSError):
                pass

        def rd():
            for ln in p.stdout:
                q.put(ln)
            q.put(None)

        def rderr():
            errbuf.append(p.stderr.read())
        ths = [threading.Thread(target=f, daemon=True) for f in (feed, rd, rderr)]
        for t in ths:
            t.start()
        got = []
        hang = False
        while True:
            try:
                ln = q.get(timeout=min(stall, max(1.0, t_end - time.time())))
            except _q.Empty:
                hang = True
                break
            if ln is None:
                break
            got.append(ln.decode(errors="replace").rstrip("\n"))
            if len(got) >= len(chunk):
                break
        if hang:
            p.kill()
        try:
            p.wait(timeout=30)
        except subprocess.TimeoutExpired:
            p.kill()
            p.wait()
        for t in ths:
            t.join(timeout=5)
        rc = p.returncode
        err = (errbuf[0] if errbuf else b"").decode(errors="replace")
        if len(got) >= len(chunk):
            out.extend(got[:len(chunk)])
            break
        out.extend(got)
        kind = "HANG" if hang else classify_crash(rc, err)
        out.append(kind)
        hangs += 1 if hang else 0
        if hangs >= 3:          # enough evidence; do not wait `stall` seconds for every remaining line
            out.extend(["HANG:skipped-after-3-hangs"] * (n - len(out)))
            break
        i += len(got) + 1
        restarts += 1
        if restarts > 200 or time.time() > t_end + 5:
            out.extend(["CRASH:too-many" if restarts > 200 else "HANG:overall-timeout"] * (n - len(out)))
            break
    return out


def classify_crash(rc, err):
    m = re.search(r"ERROR: AddressSanitizer: ([a-zA-Z-]+)", err)
    if m:
        return "SAN:" + m.group(1)
    if "runtime error:" in err:
        m = re.search(r"runtime error: ([^\n]{0,60})", err)
        return "SAN:ubsan:" + re.sub(r"[^a-zA-Z ]", "", m.group(1)).strip().replace(" ", "-")[:40]
    if "terminate called" in err:
        m = re.search(r"instance of '([^']+)'", err)
        return "ABORT:" + (m.group(1) if m else "terminate")
    if isinstance(rc, int) and rc < 0:
        return "CRASH:sig%d" % (-rc)
    return "CRASH:rc%s" % rc


HANG_RETRIES = [4]


def run_tool(argv, stdin=b"", timeout=60, env=None, cwd=None, stdin_file=None, _retry=False):
    """Run a real binary; returns (status, stdout, stderr) with status an int exit code,
    'sig<N>' for a signal, or 'HANG'.  stdin_file: path to attach as fd 0 (regular file -> mmap path)."""
    try:
        if stdin_file is not None:
            with open(stdin_file, "rb") as fh:
                p = subprocess.run(argv, stdin=fh, stdout=subprocess.PIPE, stderr=subprocess.PIPE, timeout=timeout,
                                   env=env, cwd=cwd)
        else:
            p = subprocess.run(argv, input=stdin, stdout=subprocess.PIPE, stderr=subprocess.PIPE, timeout=timeout,
                               env=env, cwd=cwd)
    except subprocess.TimeoutExpired as e:
        # "did not finish in time" is only a verdict if it is not the machine that is slow: the run is repeated once with four times the
        # limit (at most HANG_RETRIES[0] such repeats per check, so that a tree that really hangs everywhere does not take hours)
        if HANG_RETRIES[0] > 0 and not _retry:
            HANG_RETRIES[0] -= 1
            return run_tool(argv, stdin, min(timeout * 4, 600), env, cwd, stdin_file, _retry=True)
        return "HANG", e.stdout or b"", e.stderr or b""
    st = p.returncode
    if st < 0:
        st = "sig%d" % (-st)
    return st, p.stdout, p.stderr


def san_kind(stderr: bytes):
    e = stderr.decode(errors="replace")
    m = re.search(r"ERROR: AddressSanitizer: ([a-zA-Z-]+)", e)
    if m:
        return "SAN:" + m.group(1)
    if "runtime error:" in e:
        return "SAN:ubsan"
    if "LeakSanitizer" in e:
        return "SAN:leak"
    return None


# ----------------------------------------------------------------------------- lean
def theorem_names(prop):
    path = os.path.join(LEAN, "PV", "Props", prop + ".lean")
    src = open(path).read()
    src_nc = strip_lean_comments(src)
    names = re.findall(r"^\s*theorem\s+([A-Za-z_][A-Za-z0-9_'.]*)", src_nc, flags=re.M)
    return names


def strip_lean_comments(src):
    # nested block comments are rare here; handle one level + line comments
    src = re.sub(r"/-.*?-/", lambda m: "\n" * m.group(0).count("\n"), src, flags=re.S)
    src = re.sub(r"--[^\n]*", "", src)
    return src


def lean_modules_of(prop):
    """Props module and (transitively, by import text) all PV modules it depends on."""
    seen = []
    todo = ["PV.Props." + prop]
    while todo:
        m = todo.pop()
        if m in seen:
            continue
        seen.append(m)
        p = os.path.join(LEAN, *m.split(".")) + ".lean"
        if not os.path.exists(p):
            continue
        for im in re.findall(r"^import\s+(PV\.[A-Za-z0-9_.]+)", open(p).read(), flags=re.M):
            todo.append(im)
    return seen


def grep_forbidden(mods):
    hits = []
    for m in mods:
        p = os.path.join(LEAN, *m.split(".")) + ".lean"
        if not os.path.exists(p):
            continue
        src = strip_lean_comments(open(p).read())
        for ln, line in enumerate(src.split("\n"), 1):
            if FORBIDDEN.search(line):
                hits.append(f"{m}:{ln}: {line.strip()[:100]}")
    return hits


def lake_build(targets, timeout=3000):
    t0 = time.time()
    p = subprocess.run(["lake", "build"] + targets, cwd=LEAN, stdout=subprocess.PIPE, stderr=subprocess.STDOUT,
                       timeout=timeout)
    return p.returncode, p.stdout.decode(errors="replace"), time.time() - t0


def failing_decls(build_out):
    """map lake error lines to (file, line) and then to the enclosing declaration name."""
    res = []
    for m in re.finditer(r"error: (PV/[A-Za-z0-9_/]+\.lean):(\d+):(\d+): ([^\n]*)", build_out):
        f, ln, msg = m.group(1), int(m.group(2)), m.group(4)
        name = "?"
        try:
            src = open(os.path.join(LEAN, f)).read().split("\n")
            for j in range(min(ln, len(src)) - 1, -1, -1):
                mm = re.match(r"\s*(?:private\s+|protected\s+)?(?:theorem|lemma|def|example|instance)\s+([A-Za-z_][A-Za-z0-9_'.]*)?", src[j])
                if mm:
                    name = mm.group(1) or "example"
                    break
        except OSError:
            pass
        res.append({"file": f, "line": ln, "decl": name, "msg": msg[:200]})
    return res


def audit_axioms(prop, names):
    """#print axioms for every property theorem; returns {name: [axioms]} ('ERROR' on failure)."""
    ns = "PV.Props." + prop
    lines = [f"import {ns}"] + [f"#print axioms {ns}.{n}" for n in names]
    d = os.path.join(VERIF, ".cache", "audit")
    os.makedirs(d, exist_ok=True)
    f = os.path.join(d, f"audit_{prop}.lean")
    with open(f, "w") as fh:
        fh.write("\n".join(lines) + "\n")
    p = subprocess.run(["lake", "env", "lean", f], cwd=LEAN, stdout=subprocess.PIPE, stderr=subprocess.STDOUT,
                       timeout=600)
    out = p.stdout.decode(errors="replace")
    res = {}
    for n in names:
        full = f"{ns}.{n}"
        m = re.search(r"'" + re.escape(full) + r"' depends on axioms: \[([^\]]*)\]", out, flags=re.S)
        if m:
            res[n] = [a.strip() for a in m.group(1).replace("\n", " ").split(",") if a.strip()]
        elif re.search(r"'" + re.escape(full) + r"' does not depend on any axioms", out):
            res[n] = []
        else:
            res[n] = ["ERROR"]
    return res, out


# ----------------------------------------------------------------------------- context / evidence
class Ctx:
    def __init__(self, prop, tier, seed):
        self.prop = prop
        self.tier = tier
        self.seed = seed
        self.rng = random.Random(seed * 1000003 + int(prop[1:]))
        self.t0 = time.time()
        self.bdir = None
        self.build_info = {}
        self.violations = []       # list of dict(replay=..., key=..., no_input=bool)
        self.known = []
        self.cov = {"evaluations": 0, "samples": [], "units": {}}
        self.distinct = set()
        self.notes = []
        self.lean = {}
        self.tmp = tempfile.mkdtemp(prefix=f"pv_{prop}_", dir=os.path.join(VERIF, ".cache", "tmp"))

    def bin(self, name):
        return os.path.join(self.bdir, "bin", name)

    def impl(self):
        return os.path.join(self.bdir, "harness", "impl")

    def sample(self, s):
        if len(self.cov["samples"]) < 12:
            self.cov["samples"].append(s if isinstance(s, (dict, list)) else str(s)[:300])

    def count(self, unit, n=1, nontrivial_keys=()):
        u = self.cov["units"].setdefault(unit, 0)
        self.cov["units"][unit] = u + n
        self.cov["evaluations"] += n
        for k in nontrivial_keys:
            self.distinct.add(hashlib.blake2b(repr((unit, k)).encode(), digest_size=8).digest())

    def cleanup(self):
        shutil.rmtree(self.tmp, ignore_errors=True)


def diff_streams(ctx, unit, lines, model_exe=PVDRIVER, nontrivial=None, impl_exe=None, timeout=900, stall=None):
    """run `lines` through implementation driver and model driver; returns list of
    (index, line, impl_out, model_out) for disagreements."""
    impl_exe = impl_exe or ctx.impl()
    a = run_lines(impl_exe, lines, timeout=timeout, env=san_env(), stall=stall)
    b = run_lines(model_exe, lines, timeout=timeout, stall=stall)
    bad = []
    keys = []
    for i, (l, x, y) in enumerate(zip(lines, a, b)):
        if x != y:
            bad.append((i, l, x, y))
        if nontrivial is None or nontrivial(l, x, y):
            keys.append(l)
    ctx.count(unit, len(lines), keys)
    if lines:
        ctx.sample({"unit": unit, "op": lines[len(lines) // 2][:200], "impl": a[len(lines) // 2][:120],
                    "model": b[len(lines) // 2][:120]})
    return bad, a, b


def san_env(extra=None):
    e = dict(os.environ)
    e["ASAN_OPTIONS"] = "detect_leaks=0:abort_on_error=0:exitcode=97:allocator_may_return_null=1"
    e["UBSAN_OPTIONS"] = "print_stacktrace=0:halt_on_error=1:exitcode=98"
    if extra:
        e.update(extra)
    return e


def load_known():
    known, fixed = [], []
    p = os.path.join(VERIF, "KNOWN_FINDINGS.txt")
    if os.path.exists(p):
        for ln in open(p):
            ln = ln.strip()
            if ln.startswith("known:"):
                m = re.match(r"known:\s+property=(C\d+)\s+key=(\S+)\s*(.*)", ln)
                if m:
                    known.append((m.group(1), m.group(2), m.group(3)))
            elif ln.startswith("fixed:"):
                fixed.append(ln)
    return known, fixed


def report_violation(ctx, key, replay, no_input=False, summary=""):
    """record a violation; writes the replay file; prints VIOLATION / KNOWN-FINDING at the end."""
    known, _ = load_known()
    for (p, k, desc) in known:
        if p == ctx.prop and k == key:
            if key not in [x["key"] for x in ctx.known]:
                ctx.known.append({"key": key, "desc": desc})
            return
    if any(v["key"] == key for v in ctx.violations):
        return
    os.makedirs(os.path.join(VERIF, "replays"), exist_ok=True)
    path = os.path.join(VERIF, "replays", f"{ctx.prop}-{ctx.seed}-{len(ctx.violations)}.json")
    replay = dict(replay)
    replay.update({"property": ctx.prop, "key": key, "summary": summary, "seed": ctx.seed, "tier": ctx.tier,
                   "no_failing_input_found": bool(no_input),
                   "rerun": f"cd /verif && ./check {ctx.prop} --replay {path}"})
    with open(path, "w") as f:
        json.dump(replay, f, indent=1, default=str)
    ctx.violations.append({"key": key, "replay": path, "no_input": no_input, "summary": summary})


def finish(ctx, level, rule, assumptions, extra_cov=None):
    wall = time.time() - ctx.t0
    cov = dict(ctx.cov)
    cov["distinct_nontrivial"] = len(ctx.distinct)
    cov["rule"] = rule
    lean = ctx.lean
    cov["obligations"] = lean.get("obligations", 0)
    cov["discharged"] = lean.get("discharged", 0)
    cov["checker_cmd"] = lean.get("checker_cmd", "")
    cov["trusted_base"] = lean.get("trusted_base", [])
    cov["theorems"] = lean.get("theorems", {})
    cov["build"] = ctx.build_info
    cov["notes"] = ctx.notes
    cov["known_findings_hit"] = ctx.known
    if extra_cov:
        cov.update(extra_cov)
    ev = {"property_id": ctx.prop, "tier": ctx.tier, "seed": ctx.seed, "level": level, "coverage": cov,
          "assumptions": assumptions, "wall_s": round(wall, 2), "violations": len(ctx.violations)}
    os.makedirs(os.path.join(VERIF, "evidence"), exist_ok=True)
    with open(os.path.join(VERIF, "evidence", ctx.prop + ".json"), "w") as f:
        json.dump(ev, f, indent=1, default=str)
    for k in ctx.known:
        print(f"KNOWN-FINDING: property={ctx.prop} {k['key']} {k['desc']}")
    for v in ctx.violations:
        tail = " no-failing-input-found" if v["no_input"] else ""
        print(f"VIOLATION property={ctx.prop} replay={v['replay']}{tail}")
        if v["summary"]:
            print("  " + v["summary"][:400])
    ctx.cleanup()
    print(f"[{ctx.prop}] tier={ctx.tier} seed={ctx.seed} evaluations={cov['evaluations']} "
          f"distinct_nontrivial={cov['distinct_nontrivial']} theorems={cov['discharged']}/{cov['obligations']} "
          f"violations={len(ctx.violations)} wall={wall:.1f}s")
    return 1 if ctx.violations else 0


def judge_by_spec(ctx, unit, ops, impl_out, model_out, spec_ops, what, corr):
    """generic verdict: the executable SPEC (Lean) is the oracle for the implementation's answers.
    impl != spec  -> violation with the smallest such input as replay;
    impl == spec but impl != model -> correspondence break (no failing input)."""
    spec_out = run_lines(PVDRIVER, spec_ops)
    viol = [(o, x, s) for o, x, s in zip(ops, impl_out, spec_out) if x != s]
    if viol:
        viol.sort(key=lambda v: len(v[0]))
        o, x, s = viol[0]
        report_violation(ctx, f"{unit}:{o[:120]}", {"ops": [o], "impl": x, "spec": s, "more": [v[0] for v in viol[1:10]],
                         "n_disagreeing": len(viol)},
                         summary=f"{o[:100]} -> implementation {x[:100]} ; {what} requires {s[:100]}")
        return True
    bad = [(o, x, y) for o, x, y in zip(ops, impl_out, model_out) if x != y]
    if bad:
        o, x, y = bad[0]
        report_violation(ctx, "corr:" + unit, {"ops": [b[0] for b in bad[:10]], "impl": x, "model": y, "correspondence": corr,
                         "explanation": "the implementation still satisfies the executable specification on every generated "
                         "case but no longer behaves like the model the theorems are about"}, no_input=True,
                         summary=f"model/impl correspondence ({corr}) broken at {o[:100]}: impl {x[:60]} model {y[:60]}")
        return True
    return False


def generic_replay(ctx, rp, tool_env=None):
    if "ops" in rp:
        ops = rp["ops"]
        a = run_lines(ctx.impl(), ops, env=san_env())
        b = run_lines(PVDRIVER, ops)
        for o, x, y in zip(ops, a, b):
            print(f"{o}\n  impl : {x}\n  model: {y}")
    if "argv" in rp:
        st, out, err = run_tool([ctx.bin(rp["argv"][0])] + rp["argv"][1:], unhx(rp.get("stdin_hex", "-")), env=san_env())
        print("status", st, "\nstdout", out[:4000], "\nstderr", err[-1500:])


def gz_exact(target, data):
    """a stored (level 0) gzip member of exactly `target` compressed bytes built from a prefix of `data`"""
    import zlib
    for n in range(max(0, target - 80), target):
        co = zlib.compressobj(0, zlib.DEFLATED, 31)
        out = co.compress(data[:n]) + co.flush()
        if len(out) == target:
            return data[:n], out
    return None


class HugeB64:
    """base64_encode / base64_decode on texts of 2^31 bytes and more (the sizes at which 32-bit counters wrap), in the in-process harness
    on lazily committed mappings; judged through the theorems encode_length / encode_window / encode_tail / decode_rejects_foreign
    (PV.Props.C09), which say what the answer must be for a text of any length.  The encoder really produces 2.9 GB (about 40 s under
    the sanitizers), so the run is started in the background with `start` and collected with `finish`."""

    def __init__(self, ctx):
        import threading
        self.ctx = ctx
        big = [(1 << 31) + 5] if ctx.tier == "quick" else [(1 << 31) - 1, 1 << 31, (1 << 31) + 5, (1 << 32) + 2]
        self.ops = [f"b64.enchuge {n} 0,3,1048572,2097144,{(n - 12) // 3 * 3}" for n in big]
        self.ops += [f"b64.dechuge {n} {pre}" for n in (1 << 31, (1 << 31) + 3, (1 << 32) + 1, 3 << 31) for pre in ("-", "51554a44")]
        self.out = None
        self.thread = threading.Thread(target=self._run, daemon=True)

    def _run(self):
        try:
            self.out = run_lines(self.ctx.impl(), self.ops, env=san_env(), timeout=1500, stall=1500)
        except Exception as e:      # reported by finish
            self.out = e

    def start(self):
        self.thread.start()
        return self

    def finish(self, key_prefix):
        self.thread.join()
        ctx = self.ctx
        if isinstance(self.out, Exception):
            raise self.out
        model = run_lines(PVDRIVER, self.ops)
        ctx.count("b64.huge", len(self.ops), self.ops)
        ctx.cov["b64_huge_skipped"] = sum(1 for x in self.out if x.startswith("skipped"))
        for o, x, m in zip(self.ops, self.out, model):
            if x == m or x.startswith("skipped"):
                continue
            n = int(o.split()[1])
            what = "base64_encode" if "enchuge" in o else "base64_decode"
            report_violation(ctx, f"{key_prefix}:{o}", {"ops": [o], "impl": x[:400], "required": m[:400],
                             "text": f"{n} bytes = 2^31*{n >> 31} + {n & 0x7fffffff}: " + ("NUL bytes with a marker byte every 1048573 bytes" if "enchuge" in o else "the prefix followed by NUL bytes"),
                             "theorems": "encode_length, encode_window, encode_tail" if "enchuge" in o else "decode_rejects_foreign"},
                             summary=f"{what} on a text of {n} bytes (2^31*{n >> 31} + {n & 0x7fffffff}): {x[:70]}; required {m[:70]}")
            break


M64_ = (1 << 64) - 1


def murmur64a(data, seed=0):
    """reference MurmurHash64A in Python: used only to CHOOSE inputs by where their hash falls; no verdict depends on it"""
    m, r = 0xc6a4a7935bd1e995, 47
    h = (seed ^ (len(data) * m)) & M64_
    n8 = len(data) // 8
    for i in range(n8):
        k = int.from_bytes(data[8 * i:8 * i + 8], "little")
        k = (k * m) & M64_
        k ^= k >> r
        k = (k * m) & M64_
        h ^= k
        h = (h * m) & M64_
    tail = data[8 * n8:]
    if tail:
        h ^= int.from_bytes(tail, "little")
        h = (h * m) & M64_
    h ^= h >> r
    h = (h * m) & M64_
    h ^= h >> r
    return h


def low32_pair(seed, prefix=b"doc", limit=400000):
    """two different short keys whose MurmurHash64A values (given seed) differ but agree in their low 32 bits (birthday search)"""
    seen = {}
    for i in range(limit):
        k = prefix + b"%07d" % i
        h = murmur64a(k, seed)
        lo = h & 0xffffffff
        if lo in seen and seen[lo][1] != h:
            return seen[lo][0], k
        seen[lo] = (k, h)
    return None
