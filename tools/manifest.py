#!/usr/bin/env python3
"""Regenerate MANIFEST.json from the table below (single source of truth for claimed checks)."""
import json, os
VERIF = os.path.dirname(os.path.dirname(os.path.abspath(__file__)))

CHECKS = {
 "C12": dict(
   text="Kernel-checked Lean theorems: DecodeUTF8's model accepts (c,n) iff c is a scalar value whose Table 3-6 encoding "
        "is the n-byte prefix of the window, accepts exactly Table 3-7's language, and IsUTF8 accepts exactly concatenations "
        "of encoded scalar values (all byte strings, no bound). The model is tied to util/utf8.hh by a differential run "
        "(all 1-/2-byte windows, boundary 3-/4-byte windows with all truncations, composed strings, bin/remove_invalid_utf8).",
   note="Trusted: Lean kernel + propext/Classical.choice/Quot.sound; hand-written model of util/utf8.hh tied by bounded "
        "differential execution under ASan/UBSan; Lean native runtime for the driver.",
   technique="Lean 4 proof (decode_iff, decode_wf37, decodeAll_iff, isUTF8_iff) + model/impl correspondence run",
   design="6/C12"),
 "C09": dict(
   text="Kernel-checked Lean theorems over a model of base64.cc/docenc_main.cc whose tables (INV_TABLE, TABLE) and strip_cr "
        "argument are regenerated from the C++ source on every run: TABLE is the RFC 4648 alphabet, INV_TABLE is its exact inverse "
        "(all 256 entries), encode = RFC 4648 for every byte string (32-bit wrap-around accumulator modelled), decode(encode x) = x "
        "padded and unpadded, any foreign byte before '=' is an error, docenc -d | docenc reproduces every valid document sequence "
        "for both separators, index arguments select exactly the listed documents. Tied to the code by differential runs "
        "(in-process codec, real bin/docenc) with the Lean spec as oracle.",
   note="Trusted: Lean kernel + standard axioms; translator (gen_consts.py/consts_main.cc); hand-written control-flow model tied by "
        "bounded differential execution; signed overflow in the accumulators assumed to wrap (gcc).",
   technique="Lean 4 proof over generated tables (decide +kernel, induction on 3-byte groups) + correspondence run",
   design="6/C09"),
 "C14": dict(
   text="Kernel-checked Lean theorems: the index-based UInt64 model of MurmurHash64A (multiplier/shift regenerated from the source) "
        "never reads outside the string, equals reference MurmurHash64A for every byte string and seed, the field key is the left "
        "fold with the previous value as seed, and the constants/seeds in the source are the reference ones. Tied to "
        "util/murmur_hash.cc by differential runs at every length 0..300(4096), all 8 alignments under ASan, and through "
        "bin/mmhsum and bin/order_independent_hash.",
   note="Trusted: Lean kernel + standard axioms; translator for m, r and the tool seeds (source-text extraction); little-endian "
        "64-bit path only (MurmurHash64B/ARM not modelled).",
   technique="Lean 4 proof (hash_eq_reference, reads_in_bounds) + correspondence run",
   design="6/C14"),
 "C15": dict(
   text="Kernel-checked Lean theorems over a controller model of WriteStream::write/flush and ReadStream::Read in which the codec "
        "(zlib, bzip2, liblzma) is an oracle, i.e. for every sequence of codec answers: the bytes handed to the file plus those in the "
        "4 KiB buffer are exactly the bytes the codec produced, in order (nothing lost/duplicated/reordered at buffer turns); after a "
        "flush everything is in the file, all input was consumed and a stream was finished; a never-written stream still emits a "
        "member; the codec is never called with less than its minimum output space; the reader cannot spin (codec calls bounded by "
        "input supplied + Read calls under the progress contract, tight) and a no-progress call at end of file ends in the "
        "truncated-stream error; Read never returns more than asked. The same definitions accept the PV_TRACE logs of the real code "
        "with the real codecs. Validity/interoperability of the codec output is checked with independent decoders: Python "
        "zlib/bz2/lzma and the gzip/bzip2 tools, write/flush scripts, multi-member and mixed-format reads under scripted "
        "fragmentation, every truncation point of small streams, GZCompress for sizes to 70000.",
   note="Trusted: Lean kernel + standard axioms; the codecs are oracles (their answers come from the trace), their correctness is "
        "differential, not proved; bounded correspondence runs.",
   technique="Lean 4 proof over a controller model with the codec as oracle + trace acceptance + independent decoders",
   design="6/C15"),
 "C16": dict(
   text="Kernel-checked Lean theorems over three labelled transition systems at semaphore granularity, for every interleaving: "
        "PCQueue (any capacity >= 1, any number of producers/consumers and items): a slot is never written while live or being "
        "read nor read while empty or being written, global FIFO, per-producer order, exactly-once at completion, no deadlock when "
        "quotas match; UnboundedSingleQueue (any page size): the consumer never follows an unlinked next pointer, never reads an "
        "unwritten entry, the producer never touches a freed page, FIFO, no deadlock; BlockQueue/ThreadedBufferedStream (any block "
        "count >= 2 - the source's kBlocks is regenerated and checked - any block size, any write-size sequence): caller and writer "
        "thread never hold the same block, the file is always a prefix of and finally equal to the concatenation of all writes, the "
        "destructor always terminates (no deadlock + decreasing measure); with one block it deadlocks (proved witness). Tied to the "
        "real templates by a controlled scheduler driving util::Semaphore through the PREPROCESS_VERIF hooks: every executed "
        "interleaving (DFS over small scenarios, seeded random over large ones) must be accepted by the LTS and end in its final "
        "state with FIFO values / exact bytes.",
   note="Trusted: Lean kernel + standard axioms; sequential consistency between semaphore operations (weak memory, sem_t, std::mutex "
        "not modelled); real system is related to the LTS by trace acceptance of executed interleavings only.",
   technique="Lean 4 proof (invariants over Reachable for three LTSs) + trace validation under a controlled scheduler",
   design="6/C16"),
 "C17": dict(
   text="Kernel-checked Lean theorems over a transcription of WARCReader::Read (ReadMore, header lines, strtoll, overhang, body loop) "
        "on a chunked source: every fragmentation gives the same records and verdict; the returned records tile the input byte for "
        "byte (no gap, no overlap, no resynchronisation), each starting with the version line and ending in CRLF CRLF; streams of "
        "well-formed records (any body bytes, sizes below 2^63) are read back exactly; truncation inside a record, a missing "
        "version line, missing/duplicate/negative Content-Length are errors (the 2^63 saturation corner is proved as "
        "*_false counterexamples). Tied to the real reader with read(2) interposed at every split point, a malformed corpus and an "
        "independent framing oracle; warc_parallel (-j 1..8, -i, -z) is decided at the tool level as a multiset of whole records "
        "with one gzip member per record, its queues being C16's.",
   note="Trusted: Lean kernel + standard axioms; hand-written model tied by bounded differential execution; warc_parallel's "
        "thread structure is not in this model (C16 LTS + tool-level observation).",
   technique="Lean 4 proof (chunking_independent, records_tile_input, read_exact, rejection theorems) + correspondence run",
   design="6/C17"),
 "C10": dict(
   text="Kernel-checked Lean theorems over an index-arithmetic model of RangeFields/IndividualFields/ParseFields/DefragmentFields: "
        "the pieces handed to the key hash are exactly what cut selects (per range, selected fields joined by the delimiter) for "
        "every line, delimiter and well-formed range list; two lines containing all selected fields get equal pieces iff their "
        "selected fields are identical (so unselected bytes, incl. trailing empty fields, never matter and any selected difference "
        "does); ParseFields accepts exactly the cut LIST grammar for every argument string; DefragmentFields yields sorted disjoint "
        "ranges denoting the same field set and rejects exactly the overlapping lists. Tied to the code by exhaustive small-domain "
        "differential runs with a pairwise property oracle and through dedupe -f.",
   note="Trusted: Lean kernel + standard axioms; hand-written model tied by bounded differential execution under ASan; hash "
        "collisions excepted (keys compared as piece sequences).",
   technique="Lean 4 proof (range_eq_cut, pieces_iff_selected_equal, parse_matches_cut_grammar, defragment_*) + correspondence run",
   design="6/C10"),
 "C11": dict(
   text="Status logic proved in Lean over a table regenerated on every run from the built code (the translator forks children that exit "
        "with codes and that die of each fatal signal and records what preprocess::Wait() returns): a signalled child never yields "
        "exit status 0, an exiting child's code is passed through exactly, success implies all threads finished and the child "
        "exited 0. The quantifier over failing system calls and crash points is decided by fault enumeration on the real binaries: "
        "every k-th read/write/fsync/close failing with ENOSPC/EIO/EPIPE (LD_PRELOAD shim), stdout on /dev/full, and a scripted "
        "child ending with a code or a fatal signal after k answers for every k (incl. all of them) must give a non-zero status "
        "without hanging, resp. exactly the child's code.",
   note="Trusted: Lean kernel + standard axioms for the status table theorems; the per-syscall and per-crash-point part is an "
        "enumeration over one small run per tool (not a proof); stderr faults out of scope.",
   technique="Lean 4 proof over the generated Wait() table + fault enumeration (failing syscalls, dying children) on the binaries",
   design="6/C11"),
 "C13": dict(
   text="Kernel-checked Lean refinement theorem: every history of insert-if-absent/lookup operations on non-zero keys, from the freshly "
        "constructed table, runs to completion (no probe diverges, 'table full' is never raised, through any number of in-place "
        "doublings with wrap-around clusters) and returns exactly the answers of a finite map, values staying attached to keys; "
        "doubling preserves contents. The model is tied to util::AutoProbing by op-by-op differential runs (answers, growth points, "
        "final bucket layout) and the implementation's real bucket arrays are checked against the Lean invariant. util::MutableVocab "
        "(word ids) is modelled on top of the table and proved to hand out first-occurrence ids with the stored string attached to its id "
        "(mvocab_refines, mvocab_ids, mvocab_strings_attached), tied to the real class op by op.",
   note="Trusted: Lean kernel + standard axioms; zero-fill of the reallocated half (mremap/calloc) is assumed by the model; "
        "hand-written model tied by bounded differential execution.",
   technique="Lean 4 proof (history_refines via probing invariant + doubling loop invariant) + correspondence run",
   design="6/C13"),
 "C02": dict(
   text="Kernel-checked Lean theorems over a model of FilePiece::ReadLine with both backings: in read mode, for every byte string, "
        "every schedule of read() return sizes, every initial buffer size, delimiter and strip_cr, the records returned until end "
        "of input are exactly the specification's (refill, memmove and doubling lose/duplicate/reorder nothing; no divergence); in "
        "mmap mode the same for every page size, page-multiple window and start offset; end of input is reported on every further "
        "call. Tied to util::FilePiece by in-process differential runs with read(2) interposed (every short script for every small "
        "input, records at k*8192+-1, CR/delimiter at buffer edges, regular files at boundary sizes/offsets, istream, gz/bz2/xz "
        "multi-member) and through a real tool.",
   note="Trusted: Lean kernel + standard axioms; hand-written model tied by bounded differential execution; mmap-failure fallback "
        "and decompressor internals (C15) not modelled; page size 4096 in the tie.",
   technique="Lean 4 proof (read_mode_records, mmap_mode_records, eof_stable_*) + correspondence run with interposed read()",
   design="6/C02"),
 "C03": dict(
   category="proof",
   text="Kernel-checked Lean theorems for the retry loops (WriteOrThrow delivers exactly the data under every pattern of short "
        "writes and EINTR and never resends; ReadOrEOF/ReadOrThrow return exactly the requested prefix or report EOF) and, via C02, "
        "that the records a tool sees are independent of read fragmentation. The loops are tied to util/file.cc by exhaustive "
        "outcome scripts comparing results and the sequence of request sizes; the tool-level statement is decided by fault "
        "enumeration: all executables under an LD_PRELOAD shim injecting random short counts/EINTR on every descriptor must "
        "reproduce stdout, files and status of the fault-free run (runs without a fired fault are not counted).",
   note="Trusted: Lean kernel + standard axioms; the tool-level part is sampling (seeded fault schedules), not proof; libstdc++'s "
        "iostream retry loops are exercised, not modelled.",
   technique="Lean 4 proof of the I/O loops + fault enumeration on the real binaries",
   design="6/C03"),
 "C04": dict(
   text="Kernel-checked Lean theorems over a functional model of cache's Input()/Output() loops composed through the FIFO of entry "
        "references: the child receives precisely the first-occurrence lines, each once and in order; cache prints, for every "
        "input line in order, the child's answer to the first line with the same key; with injective (whole-line) keys that is "
        "the child's own output; one line out per line in. The thread/pipe interleavings are the wrapper LTS of C05 instantiated "
        "for cache (entry produced before the line is written), exit status is C11. Tied to bin/cache with logging children "
        "(4 transforms x 3 buffering policies), exhaustive duplicate patterns, >4096 distinct lines, lines beyond pipe capacity, "
        "-k/-t, with the recorded PV_TRACE event log accepted by the wrapper automaton.",
   note="Trusted: Lean kernel + standard axioms; child = deterministic line-to-line function; 64-bit key collisions excepted; answers "
        "compared as C02 records; bounded differential execution.",
   technique="Lean 4 proof (cache_output_spec, child_sees_firstOcc) + correspondence run with logging children and trace acceptance",
   design="6/C04"),
 "C05": dict(
   text="Kernel-checked Lean theorems over a labelled transition system of feeder thread, collector thread, child process and the two "
        "bounded pipes, for all interleavings, all buffer/pipe capacities >= 1, all record sizes in chunks (incl. records larger than "
        "both pipes), every release policy of a one-answer-per-chunk child and every read-ahead bound: with the entry produced before "
        "the record is written (what the three tools do after the cache repair) no reachable state is stuck before completion, the "
        "collector's error branches are unreachable (for the peeking wrapper under the proved-necessary hypothesis that records send "
        ">= 1 chunk, which C07.pieces_nonempty gives), every execution is finite, answers are consumed in order without shift and the "
        "final output is complete; every run projects onto a visible-event automaton; and with the entry produced after the write a "
        "record larger than buffer+pipes deadlocks (the repaired cache defect, proved with an explicit trace). Tied to the real "
        "binaries by PV_TRACE event logs (scripted children, sizes around the flush interval, beyond pipe capacity, single lines "
        "> 1 MiB, scheduling jitter) that must be accepted by the visible-event automaton, with complete ordered output in time.",
   note="Trusted: Lean kernel + standard axioms; real-system-within-LTS is validated on the visible events only (child and pipe steps "
        "are not observable); the OS scheduler is sampled for the binaries, the enumeration over schedules is in the proof.",
   technique="Lean 4 proof over an LTS (invariant, progress, measure, refinement) + PV_TRACE trace acceptance on the real binaries",
   design="6/C05"),
 "C01": dict(
   text="Kernel-checked Lean theorems: the dedupe loop over the proved hash-table model (C13) writes exactly the first-occurrence "
        "lines of any input for any key function without a zero hash, in input order (hence sublist, no key twice, every key once, "
        "idempotent; text-level under the documented no-collision hypothesis); -p mode equals the two-table short-circuit "
        "specification, whose outputs are aligned input pairs in order, repeat no key on either side and never drop a pair whose "
        "two sides are both new. Tied to bin/dedupe by differential runs over key specs, delimiters, pipe/mmap/gz/bz2/xz backings, "
        "120k-3M distinct keys (all growth steps) and -p, with the text-level first-occurrence spec as oracle.",
   note="Trusted: Lean kernel + standard axioms; composition of the C02 record spec, C10 fields, C14 Murmur and C13 table models "
        "tied by bounded differential execution; 64-bit collisions and a zero hash excepted (stated hypotheses).",
   technique="Lean 4 proof (dedupe_eq_firstOcc via C13 refinement, dedupePar_eq_spec) + correspondence run",
   design="6/C01"),
 "C06": dict(
   text="Kernel-checked Lean theorems for the partition part: the output files are a permutation-partition of the input, each file "
        "is an in-order sublist, the file of a line is key % n only (purity, co-location), per-shard dedupe equals whole-input "
        "dedupe as a multiset, --prefix/--number names are n distinct names. Tied to bin/shard by differential runs for n in "
        "1..12,100, both naming modes, key specs, none/gzip/bzip2 with every file expanded by independent decoders (Python and the "
        "gzip/bzip2 tools), empty input/empty shards, --number 0. File validity of the compressed writer is C15's concern and is "
        "observed here.",
   note="Trusted: Lean kernel + standard axioms; writer threads (C16) and codecs (zlib/bzip2, C15) are outside this model and "
        "checked with independent decoders; bounded differential execution.",
   technique="Lean 4 proof (shard_partition, dedupe_commutes, ...) + correspondence run with independent gzip/bzip2 decoders",
   design="6/C06"),
 "C07": dict(
   text="Kernel-checked Lean theorems over a transcription of wrap_lines() (same variables and loops, DecodeUTF8 = the C12 model): "
        "for every valid UTF-8 line, width >= 1, delimiter list and -s setting the function terminates and the pieces with the "
        "withheld runs concatenate to exactly the line; every piece is at most WIDTH bytes or a single code point; no piece or run "
        "splits a code point; withheld runs consist of delimiters only (empty without -s); there is always at least one piece; an "
        "identity child reproduces the input line for line and line counts always match. Tied to the real wrap_lines (main file "
        "included with main renamed) on 250k exhaustive/random cases with the property itself as oracle, and to bin/foldfilter "
        "with cat.",
   note="Trusted: Lean kernel + standard axioms; hand-written model tied by bounded differential execution; the child is a function "
        "on lines (threads/pipes are C05); strip_cr argument of the reader thread regenerated from the source.",
   technique="Lean 4 proof (wrapLines_spec loop invariant with termination measure) + correspondence run",
   design="6/C07"),
 "C08": dict(
   text="Kernel-checked Lean theorems over a model of b64filter's feeder/reader bookkeeping on the C09 codec: the line count sent "
        "to the reader is never the end marker 0; feeding a document and reassembling the same lines gives back the document "
        "(empty, newline-only, with/without final newline, NUL, CR); with an identity child the output is the canonical base64 of "
        "each input document (padded or unpadded input); one output line per document; for every line-preserving child document "
        "i's output is built from exactly the answers to document i's lines (no shift). Tied to bin/b64filter with cat/tr/sed "
        "children on exhaustive small documents and random large ones.",
   note="Trusted: Lean kernel + standard axioms; the child is a function on line sequences (threads/pipes are C05); strip_cr "
        "argument regenerated from the source; bounded differential execution.",
   technique="Lean 4 proof (identity_child_exact, no_shift, describe_reassemble) + correspondence run",
   design="6/C08"),
 "C18": dict(
   text="Kernel-checked Lean theorems for remove_long_lines (exact limit, sublist, f(A++B)=f A++f B), remove_invalid_utf8 (keeps "
        "exactly the well-formed lines, compositional), remove_invalid_utf8_base64 (line-wise, compositional), subtract_lines "
        "(removes every copy of every subtrahend key and nothing else, through the proved table model) and commoncrawl_dedupe "
        "(strip, drop delimiter lines, first occurrence, only well-formed output, no key twice). simple_cleaning is decided at the "
        "tool level only (subsequence, never passes ill-formed UTF-8 or C0 controls, compositional on all splittings). Tied to the "
        "six binaries by differential runs incl. every splitting A++B of short sequences.",
   note="Trusted: Lean kernel + standard axioms; ICU classification inside simple_cleaning is not modelled; 64-bit collisions "
        "excepted; bounded differential execution.",
   technique="Lean 4 proof (filter lemmas, subtract_spec, ccdedupe_spec via C13) + correspondence run",
   design="6/C18"),
 "C19": dict(
   text="Kernel-checked Lean theorems: process_unicode's two-buffer main loop prints, for every flag combination and every line "
        "index, exactly lower/flatten/NFKC applied in that order (ICU's lower, NFKC, u_isspace as parameters), identity with no "
        "flag; Flatten::Apply over UTF-16 units equals the code-point level specification (leftmost, multi-character alternatives "
        "before the single-character one, copy otherwise) for every sequence of scalar values, so each code point incl. "
        "supplementary planes is emitted exactly once; untargeted text passes through. The rule tables of all five languages are "
        "regenerated from the C++ data structures on every run and checked to be BMP-only. Tied to Flatten::Apply in-process and "
        "to bin/process_unicode for 8 flag sets x 5 languages per line index.",
   note="Trusted: Lean kernel + standard axioms; ICU (toLower, NFKC, u_isspace, UnicodeString) as parameters whose values come "
        "from the same ICU build; translator for the rule tables; bounded differential execution.",
   technique="Lean 4 proof (pipeline_per_line, apply_eq_spec) over generated rule tables + correspondence run",
   design="6/C19"),
 "C20": dict(
   text="Partial proof plus sanitizer-observed correspondence. Proved in Lean (kernel-checked) for all argument values: the number "
        "formatters behind the output streams never touch more bytes than ToStringBuf<T>::kBytes reserves, for every "
        "uint16/int16/uint32/int32/uint64/int64 value (incl. the 8/16-byte SSE stores) and every float/double (all sign, digit "
        "count and decimal point combinations double-conversion can produce, plus inf/NaN, including the StringBuilder's NUL), with "
        "kBytes regenerated from the headers on every run; together with the termination/in-bounds theorems of the other "
        "properties (C13 probing, C02 reader, C07 wrap_lines, C14 Murmur reads, C08 record count/back(), C17 tiling); and for every "
        "history of Allocate/Continue calls on util::Pool (cache's answers, vocabulary strings) the allocations lie inside malloc'ed "
        "pages, never share a byte, never move, Continue's memcpy stays in bounds and the page-size shift stays below 64 (pool_* "
        "theorems, model tied to the real class by pattern-filled op sequences under ASan). The model's "
        "byte counts are tied to util::ToString by sentinel-buffer measurement. Everything else - all 24 executables on an "
        "adversarial corpus under ASan+UBSan with timeouts - is observation, not proof.",
   note="Trusted: Lean kernel + standard axioms for the listed obligations; double-conversion's digit/exponent ranges are a parameter; "
        "memory safety of the remaining code is only observed by sanitizers on the corpus (UBSan checks for shift-base, signed "
        "overflow, alignment and vptr are disabled, see DESIGN).",
   technique="Lean 4 proof of the formatter bounds over generated kBytes and of util::Pool's allocation invariants + sanitizer/timeout corpus on all executables",
   design="6/C20"),
}

NOT_APPLICABLE = []

def main():
    props = [json.loads(l)["id"] for l in open(os.path.join(VERIF, "properties.jsonl"))]
    checks = []
    for pid in props:
        if pid not in CHECKS:
            continue
        c = CHECKS[pid]
        checks.append({
            "property_id": pid,
            "quick_cmd": f"./check {pid} --tier quick",
            "thorough_cmd": f"./check {pid} --tier thorough",
            "evidence_file": f"/verif/evidence/{pid}.json",
            "replay_cmd_template": f"./check {pid} --replay {{path}}",
            "engine": "lean4-proof+correspondence",
            "level_claimed": {"category": c.get("category", "proof"), "text": c["text"], "design_ref": c["design"]},
            "level_note": c["note"],
            "technique": c["technique"],
        })
    na = list(NOT_APPLICABLE)
    claimed = {c["property_id"] for c in checks}
    for pid in props:
        if pid not in claimed and pid not in {n["property_id"] for n in na}:
            na.append({"property_id": pid, "reason": "check not built yet in this revision (work in progress; see DESIGN.md section 8)"})
    hooks_file = os.path.join(VERIF, "hooks.json")
    hooks = json.load(open(hooks_file)) if os.path.exists(hooks_file) else {"source_commits": []}
    m = {
        "version": 1,
        "setup_cmd": "./setup.sh",
        "hooks": {"guard": "PREPROCESS_VERIF",
                  "enable": "tools/build.py configures /repo's CMake with -DCMAKE_CXX_FLAGS='-DPREPROCESS_VERIF -fsanitize=address,undefined' into /verif/.cache/<treehash>/san",
                  "baseline_off_cmd": "/verif/baseline_off.sh",
                  "source_commits": hooks.get("source_commits", []),
                  "add_only": True},
        "engines": [{"name": "lean4-proof+correspondence", "path": "/verif/check",
                     "serves_properties": sorted(claimed),
                     "kind_free_text": "Lean 4 model + kernel-checked theorems (lean/PV), constants regenerated from /repo by a translator, "
                                       "differential correspondence run of the model driver against the real code, violation search with the spec as oracle"}],
        "checks": checks,
        "not_applicable": na,
        "notes": "See DESIGN.md. Every check rebuilds /repo's working tree (cached by content hash) and re-checks the Lean theorems against regenerated constants.",
    }
    with open(os.path.join(VERIF, "MANIFEST.json"), "w") as f:
        json.dump(m, f, indent=1)
    print("MANIFEST.json:", len(checks), "checks,", len(na), "not_applicable")

if __name__ == "__main__":
    main()
