"""C18 — line filters keep or drop each line by its own content only."""
import base64, os
import pvlib
from pvlib import hx, unhx

LEVEL = "proof"
RULE = ("real binaries remove_long_lines / remove_invalid_utf8 / remove_invalid_utf8_base64 / subtract_lines / commoncrawl_dedupe / "
        "simple_cleaning vs the Lean models on seeded line sequences (lengths at LIMIT-1, LIMIT, LIMIT+1; ill-formed UTF-8; C0 "
        "controls; duplicates; reference sets) and on every splitting A++B of short sequences for the stateless tools "
        "(filter(A++B) = filter(A)++filter(B)); bin/simple_cleaning against PV.Cleaning.filter on mixed-script / punctuation / run / control / ill-formed lines over all option "
        "combinations of min-chars, character-run, the three thresholds, --scripts and -f; oracle = per-line predicate / subsequence / set-difference statements evaluated on "
        "the tool output; non-trivial = distinct (tool, args, input)")
ASSUMPTIONS = ["simple_cleaning's ICU classification (uscript_getScript, u_ispunct, u_isspace) is a parameter of its model, taken from the same "
               "ICU build; its float threshold tests are modelled for exactly representable option values (0, 1, 1/2, 1/4, 3/4) only",
               "64-bit hash collisions excepted for the two set-based tools"]


def tool(ctx, name, args, data):
    st, out, err = pvlib.run_tool([ctx.bin(name)] + args, data, env=pvlib.san_env(), timeout=60)
    return st, out, err


def gen_lines(rng, n):
    pool = [b"", b"a", b"abc", b"\xc3\xa9t\xc3\xa9", b"\xff", b"a\xc0\xaf", b"\xed\xa0\x80", b"tab\there", b"bell\x07", b"  padded  ", b"\x0bvt",
            b"df6fa1abb58549287111ba8d776733e9 doc", b"x" * 10, b"x" * 11, b"x" * 9, b"dup", b"dup", b" dup ", b"\xf0\x9f\x98\x80", b"nul\x00x"]
    def one():
        r = rng.random()
        if r < 0.6:
            return rng.choice(pool)
        if r < 0.75:
            return bytes(rng.choice(b"ab \xc3\xa9\xff") for _ in range(rng.randrange(0, 14)))
        if r < 0.85:
            return b"p" * rng.randrange(0, 9)          # shifts the following lines in the reader's buffer
        if r < 0.89:
            # around and beyond the 8 KiB output buffer (a line that does not fit is written around it)
            n_ = rng.choice([8190, 8191, 8192, 8193, 9000, 20000])
            return bytes(97 + (i * 7 + n_) % 26 for i in range(n_))
        # a mostly-ASCII line with a single stray byte (Latin-1 text in a UTF-8 corpus), at any offset
        b = bytearray(b"The quick brown fox jumps over the lazy dog"[:rng.randrange(1, 44)])
        b[rng.randrange(len(b))] = rng.choice([0xE9, 0x80, 0xFF, 0xC3])
        return bytes(b)
    return [one() for _ in range(n)]


def text(ls):
    return b"".join(l + b"\n" for l in ls)


def is_subseq(small, big):
    it = iter(big)
    return all(any(x == y for y in it) for x in small)


def wellformed(b):
    try:
        b.decode("utf-8")
        return True
    except UnicodeDecodeError:
        return False


def feed_pieces(argv, pieces, env, timeout=60):
    """stdin = a pipe that receives `pieces` one write at a time with a pause between them (so that the tool's read() calls see the
    boundaries; merged fragments only lose coverage); stdout/stderr to files"""
    import subprocess, tempfile, time
    with tempfile.TemporaryFile() as fo, tempfile.TemporaryFile() as fe:
        p = subprocess.Popen(argv, stdin=subprocess.PIPE, stdout=fo, stderr=fe, env=env)
        try:
            for pc in pieces:
                try:
                    p.stdin.write(pc)
                    p.stdin.flush()
                except BrokenPipeError:
                    break
                time.sleep(0.03)
            try:
                p.stdin.close()
            except BrokenPipeError:
                pass
            st = p.wait(timeout=timeout)
        except subprocess.TimeoutExpired:
            p.kill()
            p.wait()
            st = "HANG"
        fo.seek(0)
        fe.seek(0)
        return (st if isinstance(st, str) or st >= 0 else "sig%d" % (-st)), fo.read(), fe.read()


def crlf_fragments(ctx):
    """CRLF text arriving through a pipe in fragments that END between a line's CR and its LF (and the same text in one piece, where the
    6-byte look at the compression magic makes the first boundary): the filters must see the normalised lines -- a line of exactly
    LIMIT bytes is kept, a well-formed line comes out without its CR, a subtrahend line is removed."""
    rng = ctx.rng
    sub = os.path.join(ctx.tmp, "crlf_sub.txt")
    open(sub, "wb").write(b"gamma\nabcde\n")
    for first in (b"abcde", b"abcd", b"abcdef", b"", b"gamma", b"\xc3\xa9t\xc3\xa9", b"x" * 4090):
        ls = [first, b"gamma", b"delta\xff", b"abcde", b"", b"tail"]
        data = b"".join(l + b"\r\n" for l in ls)
        pieces, cur = [], b""
        for l in ls:
            pieces.append(cur + l + b"\r")
            cur = b"\n"
        pieces.append(cur)
        for tool_, args, want in (("remove_long_lines", ["5"], text([l for l in ls if len(l) <= 5])),
                                  ("remove_invalid_utf8", [], text([l for l in ls if wellformed(l)])),
                                  ("subtract_lines", [sub], text([l for l in ls if l not in (b"gamma", b"abcde")]))):
            for how, pcs in (("one piece", [data]), ("fragments ending between CR and LF", pieces)):
                st, out, err = feed_pieces([ctx.bin(tool_)] + args, pcs, pvlib.san_env())
                if st == "HANG":        # only a verdict if it is not the machine that is slow: once more with four times the limit
                    st, out, err = feed_pieces([ctx.bin(tool_)] + args, pcs, pvlib.san_env(), timeout=240)
                ctx.count("crlf-fragments", 1, [(tool_, first, how)])
                if st != 0 or out != want:
                    pvlib.report_violation(ctx, f"crlf:{tool_}:{hx(first)[:20]}:{how[:3]}", {"argv": [tool_] + (["<file: gamma, abcde>"] if tool_ == "subtract_lines" else args),
                        "stdin_pieces_hex": [hx(x) for x in pcs], "got": hx(out)[:600], "want": hx(want)[:600], "status": st},
                        summary=f"{tool_} {' '.join(args[:1]) if tool_ != 'subtract_lines' else '<gamma,abcde>'} on CRLF lines (first line {first[:12]!r}, {how}): "
                                f"output {out[:60]!r}, the filter applied to the normalised lines gives {want[:60]!r} (status {st})")
                    return


def run(ctx):
    rollover_sets(ctx)
    if not ctx.violations:
        crlf_fragments(ctx)
    if ctx.violations:
        return
    rng = ctx.rng
    nseq = 60 if ctx.tier == "quick" else 600
    for it in range(nseq):
        ls = gen_lines(rng, rng.randrange(0, 14))
        data = text(ls)
        # ---- remove_long_lines
        limit = rng.choice([0, 1, 9, 10, 11, 2000, 100000])
        st, out, err = tool(ctx, "remove_long_lines", [str(limit)], data)
        m = pvlib.run_lines(pvlib.PVDRIVER, [f"tools.long {limit} {hx(data)}"])[0]
        ctx.count("remove_long_lines", 1, [(limit, data)])
        want = text([l for l in ls if len(l) <= limit])
        if st != 0 or out != want:
            pvlib.report_violation(ctx, f"long:{limit}:{hx(data)[:60]}", {"argv": ["remove_long_lines", str(limit)], "stdin_hex": hx(data), "got": hx(out), "want": hx(want)},
                                   summary=f"remove_long_lines {limit}: output is not exactly the lines of at most {limit} bytes")
        elif "ok " + hx(out) != m:
            pvlib.report_violation(ctx, "corr:tools.long", {"ops": [f"tools.long {limit} {hx(data)}"], "impl": hx(out), "model": m}, no_input=True,
                                   summary="remove_long_lines model/impl differ")
        # ---- remove_invalid_utf8
        st, out, err = tool(ctx, "remove_invalid_utf8", [], data)
        ctx.count("remove_invalid_utf8", 1, [data])
        want = text([l for l in ls if wellformed(l)])
        m = pvlib.run_lines(pvlib.PVDRIVER, [f"tools.utf8 {hx(data)}"])[0]
        if st != 0 or out != want:
            pvlib.report_violation(ctx, "utf8:" + hx(data)[:60], {"argv": ["remove_invalid_utf8"], "stdin_hex": hx(data), "got": hx(out), "want": hx(want)},
                                   summary="remove_invalid_utf8: output is not exactly the well-formed lines")
        elif "ok " + hx(out) != m:
            pvlib.report_violation(ctx, "corr:tools.utf8", {"ops": [f"tools.utf8 {hx(data)}"], "impl": hx(out), "model": m}, no_input=True,
                                   summary="remove_invalid_utf8 model/impl differ")
        # ---- remove_invalid_utf8_base64
        b64 = [base64.b64encode(l) for l in ls]
        d64 = text(b64)
        st, out, err = tool(ctx, "remove_invalid_utf8_base64", [], d64)
        ctx.count("remove_invalid_utf8_base64", 1, [d64])
        want = text([e if wellformed(l) else b"" for l, e in zip(ls, b64)])
        m = pvlib.run_lines(pvlib.PVDRIVER, [f"tools.utf8b64 {hx(d64)}"])[0]
        if st != 0 or out != want:
            pvlib.report_violation(ctx, "utf8b64:" + hx(d64)[:60], {"argv": ["remove_invalid_utf8_base64"], "stdin_hex": hx(d64), "got": hx(out), "want": hx(want)},
                                   summary="remove_invalid_utf8_base64: a line was not kept/blanked by its own content")
        elif "ok " + hx(out) != m:
            pvlib.report_violation(ctx, "corr:tools.utf8b64", {"ops": [f"tools.utf8b64 {hx(d64)}"], "impl": hx(out), "model": m}, no_input=True,
                                   summary="remove_invalid_utf8_base64 model/impl differ")
        # ---- remove_invalid_utf8_base64 on base64 text as it may arrive, not only as our encoder writes it: chunks glued together
        # (a '=' in the middle: decoding stops there), unpadded and over-padded lines, each FOLLOWING a longer document (the tool
        # decodes every line into the same string).  A line's fate must be the one it has when it is the only line.
        def odd64(l):
            e = base64.b64encode(l)
            r_ = rng.random()
            if r_ < 0.3:
                return e + base64.b64encode(rng.choice([b"AB", b"xyz", b"\xc3"]))      # glued chunks
            if r_ < 0.5:
                return e.rstrip(b"=")
            if r_ < 0.65:
                return e + b"=" * rng.randrange(1, 4)
            return e
        long_docs = ["a\u00e9\u00e9\u00e9 \u20acxyz".encode() * rng.randrange(1, 4), b"plain ascii text " * 3, "\u20acxyz".encode()]
        seq = []
        for l in ls[:12]:
            seq.append(base64.b64encode(rng.choice(long_docs)))
            seq.append(odd64(l if rng.random() < 0.7 else rng.choice([b"A\xc3", b"AB", b"\xe2\x82", b"ok"])))
        dseq = text(seq)
        st, out, err = tool(ctx, "remove_invalid_utf8_base64", [], dseq)
        ctx.count("remove_invalid_utf8_base64.noncanonical", 1, [dseq])
        alone = []
        for e in seq:
            st1, o1, e1 = tool(ctx, "remove_invalid_utf8_base64", [], e + b"\n")
            alone.append(o1 if st1 == 0 else None)
        if any(a_ is None for a_ in alone):
            if st == 0:
                k = next(i for i, a_ in enumerate(alone) if a_ is None)
                pvlib.report_violation(ctx, "utf8b64-seq:" + hx(dseq)[:60], {"argv": ["remove_invalid_utf8_base64"], "stdin_hex": hx(dseq), "line": k, "line_hex": hx(seq[k])},
                                       summary=f"remove_invalid_utf8_base64 rejects the line {seq[k]!r} when it is alone but accepts the input that contains it")
        elif st != 0 or out != b"".join(alone):
            ol = out.split(b"\n")
            k = next((i for i, (a_, b_) in enumerate(zip(ol, [x[:-1] for x in alone])) if a_ != b_), min(len(ol), len(alone)))
            pvlib.report_violation(ctx, "utf8b64-seq:" + hx(dseq)[:60], {"argv": ["remove_invalid_utf8_base64"], "stdin_hex": hx(dseq), "status": st, "line": k,
                                   "line_hex": hx(seq[k]) if k < len(seq) else None, "in_sequence": hx(ol[k]) if k < len(ol) else None, "alone": hx(alone[k][:-1]) if k < len(alone) else None},
                                   summary=f"remove_invalid_utf8_base64: line {k} ({seq[k][:30] if k < len(seq) else None!r}) is {'kept' if k < len(ol) and ol[k] else 'blanked'} after the lines before it but "
                                           f"{'kept' if k < len(alone) and alone[k][:-1] else 'blanked'} when it is the only line (status {st})")
        # ---- subtract_lines
        sub = gen_lines(rng, rng.randrange(0, 6))
        sf = os.path.join(ctx.tmp, "sub.txt")
        open(sf, "wb").write(text(sub))
        st, out, err = tool(ctx, "subtract_lines", [sf], data)
        ctx.count("subtract_lines", 1, [(text(sub), data)])
        # records: a trailing CR is stripped by the reader on both sides (none generated here)
        want = text([l for l in ls if l not in sub])
        m = pvlib.run_lines(pvlib.PVDRIVER, [f"tools.subtract {hx(text(sub))} {hx(data)}"])[0]
        if st != 0 or out != want:
            pvlib.report_violation(ctx, "subtract:" + hx(data)[:60], {"argv": ["subtract_lines", "<sub>"], "sub_hex": hx(text(sub)), "stdin_hex": hx(data), "got": hx(out), "want": hx(want)},
                                   summary="subtract_lines: output is not the input minus every copy of every subtrahend line")
        elif "ok " + hx(out) != m:
            pvlib.report_violation(ctx, "corr:tools.subtract", {"ops": [f"tools.subtract {hx(text(sub))} {hx(data)}"], "impl": hx(out), "model": m}, no_input=True,
                                   summary="subtract_lines model/impl differ")
        # ---- commoncrawl_dedupe
        use_rm = rng.random() < 0.5
        args = [sf] if use_rm else []
        st, out, err = tool(ctx, "commoncrawl_dedupe", args, data)
        ctx.count("commoncrawl_dedupe", 1, [(use_rm, text(sub), data)])
        m = pvlib.run_lines(pvlib.PVDRIVER, [f"tools.cc {hx(text(sub)) if use_rm else '-'} {hx(data)}"])[0]
        outl = out.split(b"\n")[:-1]
        sp = b" \t\n\r\x0b\x0c"
        stripped = [l.strip(sp) for l in ls]
        seen = set(l.strip(sp) for l in sub) if use_rm else set()
        want_l = []
        for l in stripped:
            if l.startswith(b"df6fa1abb58549287111ba8d776733e9"):
                continue
            if l in seen:
                continue
            seen.add(l)
            if wellformed(l):
                want_l.append(l)
        if st != 0 or outl != want_l:
            pvlib.report_violation(ctx, "cc:" + hx(data)[:60], {"argv": ["commoncrawl_dedupe"] + (["<remove>"] if use_rm else []), "remove_hex": hx(text(sub)) if use_rm else None,
                                   "stdin_hex": hx(data), "got": hx(out), "want": hx(text(want_l))},
                                   summary="commoncrawl_dedupe: output is not the stripped, first-occurrence, well-formed, non-delimiter lines")
        elif "ok " + hx(out) != m:
            pvlib.report_violation(ctx, "corr:tools.cc", {"ops": [f"tools.cc ... {hx(data)}"], "impl": hx(out), "model": m}, no_input=True,
                                   summary="commoncrawl_dedupe model/impl differ")
        # ---- simple_cleaning: sublist in order, never passes ill-formed / C0 (other than tab, CR); stateless
        args = ["--min-chars", str(rng.choice([0, 1, 3]))]
        st, out, err = tool(ctx, "simple_cleaning", args, data)
        ctx.count("simple_cleaning", 1, [(tuple(args), data)])
        outl = out.split(b"\n")[:-1]
        bad = None
        if st != 0:
            bad = f"status {st}"
        elif not is_subseq(outl, ls):
            bad = "output is not a subsequence of the input lines"
        else:
            for l in outl:
                if not wellformed(l) or any(c < 32 and c not in (9, 13) for c in l):
                    bad = f"passed the line {l!r}"
        if bad:
            pvlib.report_violation(ctx, "cleaning:" + hx(data)[:60], {"argv": ["simple_cleaning"] + args, "stdin_hex": hx(data), "got": hx(out)},
                                   summary=f"simple_cleaning: {bad}")
        # ---- compositionality for the stateless tools: every split A ++ B
        if len(ls) <= 6:
            for name, a_, mk in (("remove_long_lines", [str(limit)], text), ("remove_invalid_utf8", [], text), ("simple_cleaning", args, text)):
                whole = tool(ctx, name, a_, data)[1]
                for k in range(len(ls) + 1):
                    pa = tool(ctx, name, a_, text(ls[:k]))[1]
                    pb = tool(ctx, name, a_, text(ls[k:]))[1]
                    ctx.count(name + ".split", 1, [(tuple(a_), data, k)])
                    if pa + pb != whole:
                        pvlib.report_violation(ctx, f"split:{name}:{hx(data)[:60]}:{k}", {"argv": [name] + a_, "stdin_hex": hx(data), "split_at_line": k},
                                               summary=f"{name}: filter(A++B) != filter(A)++filter(B) when splitting after line {k}")
                        break
        if len(ctx.violations) > 3:
            break
    # the LIMIT argument is a decimal number however it is written (leading zeros, +)
    for arg, val in (("100", 100), ("0100", 100), ("010", 10), ("08", 8), ("0002000", 2000), ("+9", 9), ("00", 0)):
        ls = [b"x" * n for n in sorted({0, 1, 7, 8, 9, 10, 11, 63, 64, 65, 99, 100, 101, 1024, 1025, 2000, 2001} )]
        st, out, err = tool(ctx, "remove_long_lines", [arg], text(ls))
        ctx.count("remove_long_lines.limit-argument", 1, [arg])
        want = text([l for l in ls if len(l) <= val])
        if st != 0 or out != want:
            kept = [len(l) for l in out.split(b"\n")[:-1]]
            pvlib.report_violation(ctx, "long-arg:" + arg, {"argv": ["remove_long_lines", arg], "stdin_hex": hx(text(ls))[:4000], "status": st, "kept_lengths": kept},
                                   summary=f"remove_long_lines {arg}: kept the lengths {kept} (status {st}); the limit {val} keeps exactly the lengths <= {val}")
            break
    cleaning_model(ctx)
    cleaning_parallel(ctx)


def cleaning_parallel(ctx):
    """simple_cleaning -p in0 in1 out0 out1: a pair is kept exactly when BOTH lines are kept by the tool on their own (stdin
    mode, same options), whatever side the offending line is on; the outputs stay aligned."""
    rng = ctx.rng
    good = [b"The quick brown fox jumps over the lazy dog, twice.", b"Ein ganz normaler deutscher Satz, der lang genug ist.", b"Une phrase ordinaire, assez longue pour passer."]
    bad = [b"Ill-formed UTF-8 right here \xff\xfe in an otherwise decent sentence.", b"a control \x01 character inside an otherwise decent sentence", b"too short",
           b"a run of xxxxxxxxxx characters in an otherwise decent sentence.", b"1234567890 1234567890 1234567890 1234567890", b"\xce\x95\xce\xbb\xce\xbb\xce\xb7\xce\xbd\xce\xb9\xce\xba\xce\xac \xce\xba\xce\xb5\xce\xaf\xce\xbc\xce\xb5\xce\xbd\xce\xbf \xce\xb5\xce\xb4\xcf\x8e, \xce\xb1\xcf\x81\xce\xba\xce\xb5\xcf\x84\xce\xac \xce\xbc\xce\xb1\xce\xba\xcf\x81\xcf\x8d."]
    for opts in ([], ["--scripts", "Latin"], ["--min-chars", "5", "--character-run", "3"]):
        def alone(l):
            return pvlib.run_tool([ctx.bin("simple_cleaning")] + opts, l + b"\n", env=pvlib.san_env())[1] == l + b"\n"
        verdict = {l: alone(l) for l in good + bad}
        for _ in range(4 if ctx.tier == "quick" else 30):
            n = rng.randrange(1, 14)
            a = [rng.choice(good + bad) if rng.random() < 0.5 else rng.choice(good) for _ in range(n)]
            b = [rng.choice(good + bad) if rng.random() < 0.5 else rng.choice(good) for _ in range(n)]
            f = [os.path.join(ctx.tmp, n_) for n_ in ("pin0", "pin1", "pout0", "pout1")]
            open(f[0], "wb").write(text(a))
            open(f[1], "wb").write(text(b))
            for o_ in f[2:]:
                if os.path.exists(o_):
                    os.unlink(o_)
            st, out, err = pvlib.run_tool([ctx.bin("simple_cleaning")] + opts + ["-p"] + f, env=pvlib.san_env())
            ctx.count("simple_cleaning.parallel", 1, [(tuple(opts), tuple(a), tuple(b))])
            o0 = open(f[2], "rb").read() if os.path.exists(f[2]) else b""
            o1 = open(f[3], "rb").read() if os.path.exists(f[3]) else b""
            keep = [i for i in range(n) if verdict[a[i]] and verdict[b[i]]]
            if st != 0 or o0 != text([a[i] for i in keep]) or o1 != text([b[i] for i in keep]):
                wrong = next((i for i in range(n) if ((a[i] + b"\n") in o0 or (b[i] + b"\n") in o1) != (i in keep)), None)
                pvlib.report_violation(ctx, "cleaning-par:" + hx(text(a))[:40], {"argv": ["simple_cleaning"] + opts + ["-p", "in0", "in1", "out0", "out1"], "options": opts,
                                       "in0_hex": hx(text(a)), "in1_hex": hx(text(b)), "status": st, "out0": hx(o0)[:600], "out1": hx(o1)[:600], "pair_index": wrong},
                                       summary=f"simple_cleaning {' '.join(opts)} -p: kept pairs are not exactly those whose two lines are each kept on their own "
                                               f"(pair {wrong}: {a[wrong][:40] if wrong is not None else None!r} / {b[wrong][:40] if wrong is not None else None!r})")
                return


TOK = ["hello", "world", "Привет", "мир", "λόγος", "2024", "3.14", ",", ".", "!", "?", " ", " ", "  ", "\u00a0", "\u3000", "\u0301", "😀", "漢字",
       "かな", "aaaaa", "aaa", "     ", "!!!!!!", "...", "\t", "\t", "\r", "\x01", "\x00", "\x00", "\x00\x00", "\x1f", "\x0b", "\x7f", "\u0378", "\uffff", "\ue000", "ß", "İ", "-", "—", "«", "x", "ab"]
FRACS = {"0": "0/1", "1": "1/1", "0.5": "1/2", "0.25": "1/4", "0.75": "3/4"}


def rollover_sets(ctx):
    """subtract_lines and commoncrawl_dedupe keep their reference set in the same table as dedupe (key = MurmurHash64A(line, 1)): sets built
    (props/c01.rollover_inputs) so that one doubling happens with a long occupied run at bucket 0 and wrapped entries behind it.  Every
    subtrahend line must be removed; every line fed twice must come out once."""
    import importlib
    c01 = importlib.import_module("props.c01")
    sf = os.path.join(ctx.tmp, "ro_sub.txt")
    for N, r, t, w, order, ls in c01.rollover_inputs(ctx.rng, 6 if ctx.tier == "quick" else 60):
        distinct = ls[:(len(ls) + 1) // 2]
        open(sf, "wb").write(text(distinct))
        others = [b"other line %d" % i for i in range(40)]
        mixed = []
        for i, l in enumerate(distinct):
            mixed.append(l)
            if i % 3 == 0:
                mixed.append(others[(i // 3) % len(others)])
        st, out, err = tool(ctx, "subtract_lines", [sf], text(mixed))
        ctx.count("subtract_lines.rollover-set", 1, [(N, r, t, w, order)])
        want = text([l for l in mixed if l not in set(distinct)])
        if st != 0 or out != want:
            leaked = [l for l in out.split(b"\n")[:-1] if l in set(distinct)][:3]
            pvlib.report_violation(ctx, f"subtract-rollover:N={N},run={r},tail={t}+{w},{order}", {"argv": ["subtract_lines", "<sub>"], "sub_hex": hx(text(distinct))[:20000], "stdin_hex": hx(text(mixed))[:20000],
                                   "status": st, "subtrahend_lines_that_came_through": [x.decode(errors="replace") for x in leaked]},
                                   summary=f"subtract_lines with {len(distinct)} subtrahend lines (chosen so that its set doubles from {N} buckets with a run of {r} at bucket 0 and wrapped entries): "
                                           f"{len(leaked)}+ subtrahend line(s) came through, e.g. {leaked[0] if leaked else None!r} (status {st})")
            return
        st, out, err = tool(ctx, "commoncrawl_dedupe", [], text(ls))
        ctx.count("commoncrawl_dedupe.rollover-set", 1, [(N, r, t, w, order)])
        if st != 0 or out != text(distinct):
            ol = out.split(b"\n")[:-1]
            twice = [l for l in set(ol) if ol.count(l) > 1][:3]
            pvlib.report_violation(ctx, f"cc-rollover:N={N},run={r},tail={t}+{w},{order}", {"argv": ["commoncrawl_dedupe"], "stdin_hex": hx(text(ls))[:40000], "status": st,
                                   "lines_out": len(ol), "distinct_in": len(distinct), "emitted_twice": [x.decode(errors="replace") for x in twice]},
                                   summary=f"commoncrawl_dedupe on {len(distinct)} distinct lines fed twice (set doubling from {N} buckets with a run of {r} at bucket 0): {len(ol)} lines out"
                                           + (f", {twice[0]!r} twice" if twice else "") + f" (status {st})")
            return


def cleaning_model(ctx):
    """bin/simple_cleaning against PV.Cleaning.filter with ICU's classification passed in and exactly representable thresholds"""
    rng = ctx.rng
    impl = os.path.join(ctx.bdir, "harness", "implicu")
    names = ["Latn", "Cyrl", "Grek", "Jpan", "Hani"]
    codes = {n: pvlib.run_lines(impl, ["icu.scriptcodes " + n], env=pvlib.san_env())[0].split()[1] for n in names}
    for it in range(80 if ctx.tier == "quick" else 1500):
        lines = []
        for _ in range(rng.randrange(1, 9)):
            b = "".join(rng.choice(TOK) for _ in range(rng.randrange(0, 14))).encode("utf-8", "surrogatepass")
            if rng.random() < 0.15:        # a control character (NUL included) as the very first / very last character of the line or of a field
                c_ = rng.choice([b"\x00", b"\x00\x00", b"\x01", b"\x1f", b"\x00\x00\x00\x00"])
                b = rng.choice([c_ + b, b + c_, b.replace(b"\t", b"\t" + c_, 1)])
            if rng.random() < 0.12:
                b = bytearray(b + b"z")
                b[rng.randrange(len(b))] = rng.choice([0xFF, 0x80, 0xC3, 0xED])
                b = bytes(b)
            lines.append(b.replace(b"\n", b" "))
        lines = [l[:-1] if l.endswith(b"\r") else l for l in lines]     # a final CR is the reader's, not the filter's
        data = text(lines)
        mc, run = rng.choice([0, 1, 5, 12, 30]), rng.choice([0, 1, 2, 3, 5])
        mci, mp, sample = rng.choice(["1", "1", "0.5", "0.25", "0"]), rng.choice(["0", "0", "0.25", "0.5"]), rng.choice([0, 5, 200])
        scr = rng.choice([[], [], ["Latn"], ["Cyrl"], ["Latn", "Grek"], ["Jpan"], ["Hani", "Latn"]])
        ms = rng.choice(["0.5", "1", "0.75", "0.25"])
        f = rng.choice([None, None, "1", "2", "1,3", "2-"])
        args = ["--min-chars", str(mc), "--character-run", str(run), "--max-common-inherited", mci, "--min-punct", mp, "--min-punct-sample-size", str(sample),
                "--min-scripts", ms] + (["-f", f] if f else []) + (["--scripts"] + scr if scr else [])
        st, out, err = tool(ctx, "simple_cleaning", args, data)
        ctx.count("simple_cleaning.model", 1, [(tuple(args), data)])
        cps = sorted(set(ord(c) for l in lines for c in l.decode("utf-8", "ignore")))
        table = pvlib.run_lines(impl, ["icu.classify " + (",".join(map(str, cps)) or "-")], env=pvlib.san_env())[0].split()[1]
        sc = sorted(set(int(c) for n in scr for c in codes[n].split(",")))
        op = (f"clean.filter {mc} {run} {FRACS[mci]} {FRACS[mp]} {sample} {','.join(map(str, sc)) or '-'} {FRACS[ms]} {hx((f or '1-').encode())} 09 {table} {hx(data)}")
        m = pvlib.run_lines(pvlib.PVDRIVER, [op])[0]
        if st != 0 or "ok " + hx(out) != m:
            got = out.split(b"\n")[:-1]
            want = unhx(m.split()[1]).split(b"\n")[:-1] if m.startswith("ok ") else None
            diff = None
            if want is not None:
                diff = next((l for l in lines if (l in got) != (l in want)), None)
            rp = {"argv": ["simple_cleaning"] + args, "stdin_hex": hx(data), "status": st, "ops": [op], "impl": hx(out), "model": m,
                  "line_with_different_verdict": hx(diff) if diff is not None else None, "stderr": err.decode(errors="replace")[-300:]}
            # the unconditional parts of the property decide whether this is a violation with an input
            badl = [l for l in got if not wellformed(l) or any(c < 32 and c not in (9, 13) for c in l)] if st == 0 else []
            if st != 0 or badl or not is_subseq(got, lines):
                pvlib.report_violation(ctx, "cleaning-model:" + hx(data)[:60], rp,
                                       summary=f"simple_cleaning {' '.join(args)}: " + (f"status {st}" if st != 0 else f"passed {badl[0]!r}" if badl else "output is not a subsequence of the input"))
            else:
                rp["correspondence"] = "PV.Cleaning.filter (ICU classification passed in) vs bin/simple_cleaning"
                pvlib.report_violation(ctx, "corr:clean.filter", rp, no_input=True,
                                       summary=f"simple_cleaning {' '.join(args)}: verdict on {diff!r} differs from the model")
            break


def replay(ctx, rp):
    if "stdin_pieces_hex" in rp:
        argv = list(rp["argv"])
        if argv[0] == "subtract_lines":
            sub = os.path.join(ctx.tmp, "crlf_sub.txt")
            open(sub, "wb").write(b"gamma\nabcde\n")
            argv = ["subtract_lines", sub]
        st, out, err = feed_pieces([ctx.bin(argv[0])] + argv[1:], [unhx(x) for x in rp["stdin_pieces_hex"]], pvlib.san_env())
        print("status", st, "output", out[:300], "wanted", unhx(rp["want"])[:300])
        return
    if "in0_hex" in rp:
        f = [os.path.join(ctx.tmp, n_) for n_ in ("pin0", "pin1", "pout0", "pout1")]
        open(f[0], "wb").write(unhx(rp["in0_hex"]))
        open(f[1], "wb").write(unhx(rp["in1_hex"]))
        st, out, err = pvlib.run_tool([ctx.bin("simple_cleaning")] + rp["options"] + ["-p"] + f, env=pvlib.san_env())
        print("status", st, "out0", open(f[2], "rb").read()[:300], "out1", open(f[3], "rb").read()[:300])
        return
    pvlib.generic_replay(ctx, rp)
