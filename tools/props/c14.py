"""C14 — line hashing is MurmurHash64A, identical across tools, runs and alignments."""
import os
import pvlib
from pvlib import hx

LEVEL = "proof"
RULE = ("in-process MurmurHash64A and MurmurHashNative: every length 0..300 (quick) / 0..4096 (thorough) x all 8 start "
        "alignments x seeds {0,1,shard seed,random}, string ending at the end of its allocation (ASan red zone); "
        "bin/mmhsum and bin/order_independent_hash on seeded inputs; non-trivial = distinct (len, align, seed, content)")
ASSUMPTIONS = ["little-endian 64-bit platform (MurmurHash64B / ARM paths are not modelled)",
               "model transcribes util/murmur_hash.cc; m and r are regenerated from the source text"]


def run(ctx):
    rng = ctx.rng
    top = 300 if ctx.tier == "quick" else 4096
    seeds = [0, 1, 47849374332489, rng.getrandbits(64), 2 ** 64 - 1]
    ops = []
    for n in list(range(0, top + 1)) + ([rng.randrange(301, 4097) for _ in range(60)] if ctx.tier == "quick" else []):
        data = bytes(rng.randrange(256) for _ in range(n))
        for al in range(8):
            sd = seeds[(n + al) % len(seeds)]
            ops.append(f"murmur.hash {sd} {hx(data)} {al}")
        ops.append(f"murmur.native {rng.choice(seeds)} {hx(data)} {n % 8}")
        if n % 7 == 0:
            ops.append(f"murmur.hash {rng.choice(seeds)} {hx(bytes([0xFF]) * n)} {n % 8}")
    bad, a, b = pvlib.diff_streams(ctx, "murmur.hash", ops)
    spec_ops = [o.replace("murmur.hash", "murmur.spec.hash").replace("murmur.native", "murmur.spec.hash") for o in ops]
    pvlib.judge_by_spec(ctx, "murmur", ops, a, b, spec_ops, "reference MurmurHash64A", "PV.Murmur.hash64A vs util/murmur_hash.cc")
    # tools: mmhsum = chained hash over 1 MiB reads (seed 0); order_independent_hash = sum of per-line hashes (seed 0)
    for _ in range(12 if ctx.tier == "quick" else 60):
        n = rng.choice([0, 1, 7, 8, 9, 1000, rng.randrange(0, 5000)])
        data = bytes(rng.randrange(256) for _ in range(n))
        st, out, err = pvlib.run_tool([ctx.bin("mmhsum")], data, env=pvlib.san_env())
        want = pvlib.run_lines(pvlib.PVDRIVER, [f"murmur.spec.hash 0 {hx(data)} 0"])[0]
        ctx.count("mmhsum", 1, [data])
        exp = (b"%x\n" % int(want.split()[1])) if data else b"0\n"
        if st != 0 or out != exp:
            pvlib.report_violation(ctx, "mmhsum:" + hx(data)[:40], {"argv": ["mmhsum"], "stdin_hex": hx(data), "got": out.decode(errors="replace"),
                                   "want": exp.decode()}, summary=f"mmhsum prints {out!r}, reference MurmurHash64A(seed 0) gives {exp!r}")
            break
    for _ in range(12 if ctx.tier == "quick" else 60):
        lines = [bytes(rng.choice(b"abcdefgh \t\xc3\xa9") for _ in range(rng.randrange(0, 30))) for _ in range(rng.randrange(0, 20))]
        data = b"".join(l + b"\n" for l in lines)
        st, out, err = pvlib.run_tool([ctx.bin("order_independent_hash")], data, env=pvlib.san_env())
        hs = pvlib.run_lines(pvlib.PVDRIVER, [f"murmur.spec.hash 0 {hx(l)} 0" for l in lines])
        tot = sum(int(h.split()[1]) for h in hs) % 2 ** 64
        ctx.count("order_independent_hash", 1, [data])
        if st != 0 or out != b"%d\n" % tot:
            pvlib.report_violation(ctx, "oih:" + hx(data)[:40], {"argv": ["order_independent_hash"], "stdin_hex": hx(data),
                                   "got": out.decode(errors="replace"), "want": str(tot)},
                                   summary=f"order_independent_hash prints {out!r}, sum of reference hashes is {tot}")
            break


def replay(ctx, rp):
    pvlib.generic_replay(ctx, rp)
