"""C14 — line hashing is MurmurHash64A, identical across tools, runs and alignments."""
import os
import pvlib
from pvlib import hx

LEVEL = "proof"
RULE = ("in-process MurmurHash64A and MurmurHashNative: every length 0..300 (quick) / 0..4096 (thorough) x all 8 start "
        "alignments x seeds {0,1,shard seed,random}, string ending at the end of its allocation (ASan red zone); "
        "bin/mmhsum and bin/order_independent_hash on seeded inputs; bin/shard -f placement against the reference fold over the selected "
        "ranges incl. empty fields; non-trivial = distinct (len, align, seed, content)")
ASSUMPTIONS = ["little-endian 64-bit platform (MurmurHash64B / ARM paths are not modelled)",
               "model transcribes util/murmur_hash.cc; m and r are regenerated from the source text"]


def run(ctx):
    rng = ctx.rng
    top = 300 if ctx.tier == "quick" else 4096
    seeds = [0, 1, 47849374332489, rng.getrandbits(64), 2 ** 64 - 1]
    ops = []
    for n in list(range(0, top + 1)) + ([rng.randrange(301, 4097) for _ in range(60)] if ctx.tier == "quick" else []):
        data = bytes(rng.randrange(256) for _ in range(n))
        for al in range(8):
            sd = seeds[(n + al) % len(seeds)]
            ops.append(f"murmur.hash {sd} {hx(data)} {al}")
        ops.append(f"murmur.native {rng.choice(seeds)} {hx(data)} {n % 8}")
        if n % 7 == 0:
            ops.append(f"murmur.hash {rng.choice(seeds)} {hx(bytes([0xFF]) * n)} {n % 8}")
    bad, a, b = pvlib.diff_streams(ctx, "murmur.hash", ops)
    spec_ops = [o.replace("murmur.hash", "murmur.spec.hash").replace("murmur.native", "murmur.spec.hash") for o in ops]
    pvlib.judge_by_spec(ctx, "murmur", ops, a, b, spec_ops, "reference MurmurHash64A", "PV.Murmur.hash64A vs util/murmur_hash.cc")
    case_tools(ctx)
    fold_tools(ctx)
    # tools: mmhsum = chained hash over 1 MiB reads (seed 0); order_independent_hash = sum of per-line hashes (seed 0)
    for _ in range(12 if ctx.tier == "quick" else 60):
        n = rng.choice([0, 1, 7, 8, 9, 1000, rng.randrange(0, 5000)])
        data = bytes(rng.randrange(256) for _ in range(n))
        st, out, err = pvlib.run_tool([ctx.bin("mmhsum")], data, env=pvlib.san_env())
        want = pvlib.run_lines(pvlib.PVDRIVER, [f"murmur.spec.hash 0 {hx(data)} 0"])[0]
        ctx.count("mmhsum", 1, [data])
        exp = (b"%x\n" % int(want.split()[1])) if data else b"0\n"
        if st != 0 or out != exp:
            pvlib.report_violation(ctx, "mmhsum:" + hx(data)[:40], {"argv": ["mmhsum"], "stdin_hex": hx(data), "got": out.decode(errors="replace"),
                                   "want": exp.decode()}, summary=f"mmhsum prints {out!r}, reference MurmurHash64A(seed 0) gives {exp!r}")
            break
    for _ in range(12 if ctx.tier == "quick" else 60):
        lines = [bytes(rng.choice(b"abcdefgh \t\xc3\xa9") for _ in range(rng.randrange(0, 30))) for _ in range(rng.randrange(0, 20))]
        data = b"".join(l + b"\n" for l in lines)
        st, out, err = pvlib.run_tool([ctx.bin("order_independent_hash")], data, env=pvlib.san_env())
        hs = pvlib.run_lines(pvlib.PVDRIVER, [f"murmur.spec.hash 0 {hx(l)} 0" for l in lines])
        tot = sum(int(h.split()[1]) for h in hs) % 2 ** 64
        ctx.count("order_independent_hash", 1, [data])
        if st != 0 or out != b"%d\n" % tot:
            pvlib.report_violation(ctx, "oih:" + hx(data)[:40], {"argv": ["order_independent_hash"], "stdin_hex": hx(data),
                                   "got": out.decode(errors="replace"), "want": str(tot)},
                                   summary=f"order_independent_hash prints {out!r}, sum of reference hashes is {tot}")
            break


def fold_tools(ctx):
    """shard -f: the file of a line is (left fold of reference MurmurHash64A over the selected field ranges, in order,
    starting from the shard seed) mod n -- also when a selected field is empty (an empty range still mixes the running
    hash), for single fields and non-contiguous lists."""
    import shutil
    rng = ctx.rng
    vals = [b"", b"", b"a", b"b", b"caf\xc3\xa9", b"x y", b"0"]
    lines = list(dict.fromkeys(b"\t".join(rng.choice(vals) for _ in range(4)) for _ in range(120)))
    data = b"".join(l + b"\n" for l in lines)
    def merged(spec):
        """the ranges the list stands for: items sorted, touching neighbours merged (every run of them, however long)"""
        rs = []
        for it in spec.split(","):
            a, sep, b = it.partition("-")
            lo = int(a) - 1 if a else 0
            hi = (int(b) if b else 10 ** 9) if sep else lo + 1
            rs.append([lo, hi])
        rs.sort()
        out = [rs[0]]
        for r in rs[1:]:
            if out[-1][1] == r[0]:
                out[-1][1] = r[1]
            else:
                out.append(r)
        return out
    for spec in ("1", "2", "1,3", "2,4", "4,1", "1,2,4", "1,2,3", "3,2,1", "1,2,3,4", "2,3,4", "1-2,3-4", "1,2,3-", "2,3,4-", "1,3,4"):
        idx = merged(spec)
        n = rng.choice([13, 16])
        wd = os.path.join(ctx.tmp, "foldshard")
        shutil.rmtree(wd, ignore_errors=True)
        os.makedirs(wd)
        names = [os.path.join(wd, "s%d" % i) for i in range(n)]
        st, out, err = pvlib.run_tool([ctx.bin("shard"), "-f", spec] + names, data, env=pvlib.san_env(), timeout=60)
        ctx.count("shard-fold", 1, [(spec, n, data)])
        where = {}
        for i, nm in enumerate(names):
            for l in (open(nm, "rb").read().split(b"\n")[:-1] if os.path.exists(nm) else []):
                where[l] = i
        for l in lines:
            f = l.split(b"\t")
            # ranges after DefragmentFields: sorted; adjacent fields merge into one range that includes the delimiter
            pieces = [b"\t".join(f[b_:e_]) for b_, e_ in idx if b_ < len(f)]
            h = 47849374332489
            for pc in pieces:
                h = int(pvlib.run_lines(pvlib.PVDRIVER, [f"murmur.spec.hash {h} {hx(pc)} 0"])[0].split()[1])
            if st != 0 or where.get(l) != h % n:
                pvlib.report_violation(ctx, f"shard-fold:{spec}:{hx(l)}", {"argv": ["shard", "-f", spec, f"s0..s{n - 1}"], "stdin_hex": hx(data), "line": hx(l),
                                       "selected_ranges": [hx(pc) for pc in pieces], "reference_fold": h, "expected_file": h % n, "got_file": where.get(l), "status": st},
                                       summary=f"shard -f {spec} into {n}: line {l!r} (selected ranges {pieces!r}) is in file {where.get(l)}; the fold of reference "
                                               f"MurmurHash64A over the ranges from the shard seed gives {h} -> file {h % n}")
                return


def case_tools(ctx):
    """train_case writes the case model keyed by MurmurHash64A(lowered target, MurmurHash64A(source)); apply_case must look the
    same keys up: the key column equals the model's caseKey, and the trained model re-cases the text it was trained on."""
    rng = ctx.rng
    vocab = ["Cat", "Paris", "NASA", "iPhone", "Dog", "Rome", "McDonald", "Zebra", "Lyon", "Oslo",
             # lowercase has another byte length: I with dot, Kelvin sign, Angstrom sign, capital sharp s, A with stroke
             "\u0130stanbul", "\u212a", "\u212bngstr\u00f6m", "STRA\u1e9eE", "\u023ater", "\u00c9cole", "\u041c\u043e\u0441\u043a\u0432\u0430"]
    for trial in range(6 if ctx.tier == "quick" else 60):
        n = rng.randrange(2, 7)
        src = ["start"] + [rng.choice(vocab) + str(rng.randrange(3)) for _ in range(n)]
        tgt = ["Debut"] + [rng.choice(vocab) + "x" * rng.randrange(0, 9) for _ in range(n)]
        if trial == 0:          # words without any ASCII letter: their capitals are all outside ASCII, in every casing
            src = ["start", "moscow", "czechia", "omega", "moscow"]
            tgt = ["Debut", "\u041c\u043e\u0441\u043a\u0432\u0430", "\u0427\u0435\u0445\u0438\u044f", "\u03a9\u03bc\u03ad\u03b3\u03b1", "\u041c\u043e\u0441\u043a\u0432\u0430"]
        giza = ("# Sentence pair (1) source length %d target length %d alignment score : 0.1\n%s\nNULL ({ }) " % (len(src), len(tgt), " ".join(tgt)) +
                " ".join("%s ({ %d })" % (w, i + 1) for i, w in enumerate(src)) + "\n").encode()
        fa, fs, ft, fm = (os.path.join(ctx.tmp, x) for x in ("giza.txt", "src.txt", "tgt.txt", "model.txt"))
        open(fa, "wb").write(giza)
        open(fs, "wb").write((" ".join(src) + "\n").encode())
        open(ft, "wb").write((" ".join(tgt) + "\n").encode())
        st, out, err = pvlib.run_tool([ctx.bin("train_case"), fa, fs, ft], b"", env=pvlib.san_env())
        ctx.count("train_case", 1, [(tuple(src), tuple(tgt))])
        want = {}
        for i in range(1, len(src)):
            k = pvlib.run_lines(pvlib.PVDRIVER, [f"murmur.casekey {hx(src[i].encode())} {hx(tgt[i].lower().encode())}"])[0].split()[1]
            want.setdefault(k, set()).add(tgt[i])
        got = {}
        for ln in out.decode().split("\n"):
            if ln:
                parts = ln.split("\t")
                got[parts[0]] = set(p.split(" ")[0] for p in parts[1:])
        if st != 0 or got != want:
            pvlib.report_violation(ctx, "train_case:" + " ".join(src) + "|" + " ".join(tgt), {
                "argv": ["train_case", "<giza>", "<source>", "<target>"], "files": {"giza": giza.decode(), "source": " ".join(src), "target": " ".join(tgt)},
                "got_keys": sorted(got), "want_keys": sorted(want), "status": st},
                summary=f"train_case wrote keys {sorted(got)[:2]}... but MurmurHash64A(lowered target, MurmurHash64A(source)) gives {sorted(want)[:2]}...")
            return
        open(fm, "wb").write(out)
        fa2 = os.path.join(ctx.tmp, "align.txt")
        open(fa2, "wb").write(("0 ||| " + " ".join(f"{i}-{i}" for i in range(1, len(src))) + "\n").encode())
        open(ft, "wb").write((" ".join(w.lower() for w in tgt) + "\n").encode())
        st, out2, err = pvlib.run_tool([ctx.bin("apply_case"), fa2, fs, ft, fm], b"", env=pvlib.san_env())
        ctx.count("apply_case", 1, [(tuple(src), tuple(tgt))])
        expect = (" ".join([tgt[0].lower()] + tgt[1:]) + "\n").encode()
        if st != 0 or out2 != expect:
            pvlib.report_violation(ctx, "apply_case:" + " ".join(src) + "|" + " ".join(tgt), {
                "argv": ["apply_case", "<align>", "<source>", "<lowercased target>", "<model from train_case>"], "model": out.decode(), "got": out2.decode(errors="replace"),
                "want": expect.decode(), "status": st},
                summary=f"apply_case with the model train_case just wrote does not restore the casing: {out2!r} instead of {expect!r} (keys incompatible)")
            return
        # the text handed to apply_case need not be lowercase already: the key is built from the LOWERED word whatever case it arrives in
        # (capitals outside ASCII included), so the target in its original casing must come out exactly as it is
        open(ft, "wb").write((" ".join(tgt) + "\n").encode())
        st, out3, err = pvlib.run_tool([ctx.bin("apply_case"), fa2, fs, ft, fm], b"", env=pvlib.san_env())
        ctx.count("apply_case.cased-input", 1, [(tuple(src), tuple(tgt))])
        expect3 = (" ".join(tgt) + "\n").encode()
        if st != 0 or out3 != expect3:
            pvlib.report_violation(ctx, "apply_case-cased:" + " ".join(src) + "|" + " ".join(tgt), {
                "argv": ["apply_case", "<align>", "<source>", "<target in its original casing>", "<model from train_case>"], "model": out.decode(), "got": out3.decode(errors="replace"),
                "want": expect3.decode(), "status": st},
                summary=f"apply_case on text that is not lowercase yet does not find the keys train_case wrote: {out3!r} instead of {expect3!r}")
            return
        # ... and in ALL CAPITALS (where upper-casing loses nothing): the model's casing must come back
        up = [w.upper() if w.upper().lower() == w.lower() else w for w in tgt]
        open(ft, "wb").write((" ".join(up) + "\n").encode())
        st, out4, err = pvlib.run_tool([ctx.bin("apply_case"), fa2, fs, ft, fm], b"", env=pvlib.san_env())
        ctx.count("apply_case.upper-input", 1, [(tuple(src), tuple(up))])
        expect4 = (" ".join([up[0]] + tgt[1:]) + "\n").encode()
        if st != 0 or out4 != expect4:
            pvlib.report_violation(ctx, "apply_case-upper:" + " ".join(src) + "|" + " ".join(up), {
                "argv": ["apply_case", "<align>", "<source>", "<target in capitals>", "<model from train_case>"], "model": out.decode(), "target": " ".join(up),
                "got": out4.decode(errors="replace"), "want": expect4.decode(), "status": st},
                summary=f"apply_case on {' '.join(up)!r} does not find the keys train_case wrote for the lowered words: {out4.decode(errors='replace')!r} instead of {expect4.decode()!r}")
            return
        open(ft, "wb").write((" ".join(w.lower() for w in tgt) + "\n").encode())
        # several sentences in one run, links in any order, one-word sentences: the keys looked up for a sentence may not
        # depend on the sentence before it -- the run must equal the sentences processed one by one with the same model
        sents = []
        for _ in range(rng.randrange(2, 6)):
            m = rng.choice([1, 1, 2, 3, len(src) - 1])
            pos = [rng.randrange(1, len(src)) for _ in range(m)]
            links = [(a, a) for a in range(m)]
            rng.shuffle(links)
            if rng.random() < 0.5:
                links = links[:max(1, len(links) - 1)]          # unaligned tail
            sents.append((" ".join(src[p_] for p_ in pos), " ".join(tgt[p_].lower() for p_ in pos), " ".join(f"{a}-{b}" for a, b in links)))

        def run_apply(ss):
            open(fa2, "wb").write("".join(f"{k} ||| {al}\n" for k, (_, _, al) in enumerate(ss)).encode())
            open(fs, "wb").write("".join(x[0] + "\n" for x in ss).encode())
            open(ft, "wb").write("".join(x[1] + "\n" for x in ss).encode())
            return pvlib.run_tool([ctx.bin("apply_case"), fa2, fs, ft, fm], b"", env=pvlib.san_env())
        st, together, err = run_apply(sents)
        singly = b"".join(run_apply([x])[1] for x in sents)
        ctx.count("apply_case.sentences", 1, [tuple(sents)])
        if st != 0 or together != singly:
            gl, wl = together.split(b"\n"), singly.split(b"\n")
            k = next((i for i, (p_, q_) in enumerate(zip(gl, wl)) if p_ != q_), min(len(gl), len(wl)))
            pvlib.report_violation(ctx, "apply_case-seq:" + "|".join(x[1] for x in sents)[:80], {
                "argv": ["apply_case", "<align>", "<source>", "<target>", "<model from train_case>"], "model": out.decode(),
                "files": {"align": [x[2] for x in sents], "source": [x[0] for x in sents], "target": [x[1] for x in sents]},
                "together": together.decode(errors="replace"), "one_by_one": singly.decode(errors="replace"), "sentence": k, "status": st},
                summary=f"apply_case: sentence {k} is recased as {gl[k] if k < len(gl) else None!r} after the sentences before it, but as "
                        f"{wl[k] if k < len(wl) else None!r} on its own (the keys looked up depend on the previous sentence)")
            return


def replay(ctx, rp):
    pvlib.generic_replay(ctx, rp)
