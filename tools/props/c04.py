"""C04 — cache is transparent: child's answers per key, one child call per distinct key."""
import itertools, os
import pvlib, wrappers
from pvlib import hx

LEVEL = "proof"
RULE = ("real bin/cache with scripted children (identity / upper / prefix / rev transforms; eager, block and read-all buffering) that "
        "log their stdin: every duplicate pattern of length <= 6 (quick) / 7 over 3 keys, seeded inputs with > 4096 distinct lines and "
        "> 64 KiB, LF / CRLF line ends and unterminated last lines, key specs -k/-t incl. keys of several separate ranges over lines with empty and missing fields, and inputs whose producer stalls at and around the queue-page multiples after the 4096-line flush; stdout must be the child's answer to the first line with the same key, the child must have "
        "received exactly the first-occurrence lines in order, exit status = the child's; the Lean model (PV.Cache.run) must agree; "
        "the PV_TRACE log must be accepted by the wrapper automaton; non-trivial = distinct (key spec, child, input)")
ASSUMPTIONS = ["child answers are compared as C02 records (a trailing CR in an answer is stripped by the reader on every path)",
               "64-bit key collisions excepted"]

PY = {"id": lambda l: l, "upper": lambda l: l.upper(), "prefix": lambda l: b"X" + l, "rev": lambda l: l[::-1]}


def expected(lines, keyf, fn):
    first = {}
    out, sent = [], []
    for l in lines:
        k = keyf(l)
        if k not in first:
            first[k] = l
            sent.append(l)
        out.append(PY[fn](first[k]))
    return out, sent


def run(ctx):
    rng = ctx.rng
    cases = []
    keys = [b"k1", b"", b"k3"]            # the empty line is a key (and an answer) like any other
    maxn = 6 if ctx.tier == "quick" else 7
    pats = []
    for n in range(0, maxn + 1):
        pats += list(itertools.product(range(3), repeat=n))
    rng.shuffle(pats)
    for t in pats[:(60 if ctx.tier == "quick" else 600)]:
        lines = [keys[i] + b"\tpayload%d" % j for j, i in enumerate(t)]
        cases.append((["-k", "1"], lambda l: l.split(b"\t")[0], lines))
        cases.append(([], lambda l: l, [keys[i] for i in t]))
    big = [b"line %d" % (i % 5000) for i in range(9000)]
    cases.append(([], lambda l: l, big))
    cases.append((["-k", "2", "-t", " "], lambda l: (l.split(b" ") + [b""])[1], big))
    cases.append(([], lambda l: l, [b"q" * 70000, b"r", b"q" * 70000, b"s" * 300000]))
    # long runs of repeats: nothing is sent to the child for tens of thousands of lines while entries pile up between
    # the threads (more than any plausible bound on that backlog)
    cases.append(([], lambda l: l, [b"x"] * 70001))
    cases.append(([], lambda l: l, [b"row %d" % i for i in range(5000)] + [b"row %d" % (i % 100) for i in range(140000)]))
    cases.append((["-k", "1", "-t", " "], lambda l: l.split(b" ")[0], [b"k%d v%d" % (i % 50, i) for i in range(80000)]))
    # paced input: the upstream producer stalls at chosen lines so that the output thread catches up with the input
    # thread.  It can catch up completely only when everything sent so far has been flushed to the child, i.e. after
    # the explicit flush at the 4096th new line followed by duplicates only; the stalls sit at and around the multiples
    # of the queue page size (1023 entries, util/pcqueue.hh) and at seeded positions.
    paced = [b"row %d" % i for i in range(4096)] + [b"row %d" % ((i * 7) % 4096) for i in range(2300)]
    stalls = sorted(set([1023 * k + d for k in range(1, 7) for d in (-1, 0, 1)] + [4095, 4096, 4097] + [rng.randrange(1, len(paced)) for _ in range(4)]))
    cases.append(([], lambda l: l, paced, stalls))
    cases.append((["-k", "2", "-t", " "], lambda l: (l.split(b" ") + [b""])[1], paced, stalls[1::2]))
    # keys made of several separate ranges over lines with empty and missing fields: the key is the TUPLE of selected pieces, so an
    # empty field in one position and the same text in another are different keys (pieces as RangeFields hands them over, C10)
    for _ in range(24 if ctx.tier == "quick" else 240):
        spec, dl = rng.choice([("1,3", "\t"), ("1,3,5", ","), ("1-2,4", "\t"), ("2,4-", " "), ("1,3-", "\t"), ("2-3,5", ","), ("1,2", "\t"), ("3,1", "\t")])
        ranges = sorted((int(a) - 1, (int(b) if b else 10 ** 9) if sep else int(a)) for a, sep, b in (x.partition("-") for x in spec.split(",")))
        d = dl.encode()

        def keyf(l, ranges=ranges, d=d):
            f = l.split(d)
            return tuple(d.join(f[b:e]) for b, e in ranges if b < len(f))
        atoms = [b"", b"", b"a", b"b", b"ab"]
        lines = [d.join(rng.choice(atoms) for _ in range(rng.randrange(1, 7))) for _ in range(rng.randrange(8, 60))]
        cases.append((["-k", spec] + (["-t", dl] if dl != "\t" else []), keyf, lines))
    pr_ = pvlib.low32_pair(1, b"line")
    if pr_:
        cases.append(([], lambda l: l, [pr_[0], pr_[1], pr_[0], pr_[1], b"other"]))
        cases.append((["-k", "2", "-t", ","], lambda l: l.split(b",")[1], [b"a," + pr_[0] + b",1", b"b," + pr_[1] + b",2", b"c," + pr_[0] + b",3"]))
    for i, case in enumerate(cases):
        args, keyf, lines = case[:3]
        stall_lines = case[3] if len(case) > 3 else None
        fn = rng.choice(["id", "upper", "prefix", "rev"])
        pol = rng.choice([["eager"], ["block", "3"], ["readall"]])
        # line ends: LF, or CRLF (the reader strips the CR, so keys, child input and answers are those of the LF
        # input), and sometimes a last line without terminator
        eol = b"\r\n" if (i % 4 == 1 and not any(l.endswith(b"\r") for l in lines)) else b"\n"
        data = b"".join(l + eol for l in lines)
        if lines and lines[-1] and i % 5 == 2:
            data = data[:-len(eol)]
        log = os.path.join(ctx.tmp, "child_in.log")
        if os.path.exists(log):
            os.unlink(log)
        pauses = None
        if stall_lines:
            offs, o = [], 0
            for l in lines:
                o += len(l) + 1
                offs.append(o)
            pauses = [offs[k - 1] for k in stall_lines if 0 < k <= len(offs)]
            pol = ["eager"]
        st, out, err, trace = wrappers.run_traced(ctx, ["cache"] + args, data, pol, child_fn=fn, log_child=log, timeout=60, pauses=pauses)
        ctx.count("cache-run", 1, [(tuple(args), fn, tuple(pol), data)])
        if pauses:
            ctx.cov["paced_runs"] = ctx.cov.get("paced_runs", 0) + 1
        want, sent = expected(lines, keyf, fn)
        wantb = b"".join(l + b"\n" for l in want)
        got_sent = open(log, "rb").read() if os.path.exists(log) else b""
        rp = {"argv": ["cache"] + args + ["python3", "harness/children/child.py"] + pol, "env": {"PV_CHILD_FN": fn}, "stdin_hex": hx(data)[:200000], "status": st}
        if pauses:
            rp["stdin_stalls_at_byte_offsets"] = pauses
            rp["stderr_tail"] = err.decode(errors="replace")[-300:]
        if st != 0 or out != wantb:
            ol, wl = out.split(b"\n"), wantb.split(b"\n")
            k = next((j for j, (a, b) in enumerate(zip(ol, wl)) if a != b), min(len(ol), len(wl)))
            rp.update({"line": k, "got": hx(ol[k][:200]) if k < len(ol) else None, "want": hx(wl[k][:200]) if k < len(wl) else None})
            pvlib.report_violation(ctx, f"cache-out:{i}:{hx(data)[:60]}", rp,
                                   summary=f"cache {' '.join(args)} (child {fn}, {' '.join(pol)}): output line {k} is not the child's answer to the first line with that key (status {st}{', input paced' if pauses else ''})")
            continue
        if got_sent != b"".join(l + b"\n" for l in sent):
            rp.update({"child_received": hx(got_sent[:2000]), "first_occurrences": hx(b"".join(l + b"\n" for l in sent)[:2000])})
            pvlib.report_violation(ctx, f"cache-sent:{i}:{hx(data)[:60]}", rp,
                                   summary=f"cache {' '.join(args)}: the child did not receive exactly the first-occurrence lines, each once, in order")
            continue
        if len(data) < 20000 and fn in ("id", "upper", "prefix"):
            spec = (args[1] if "-k" in args else "-").encode()
            d = (args[args.index("-t") + 1] if "-t" in args else "\t").encode()
            m = pvlib.run_lines(pvlib.PVDRIVER, [f"cache.run {hx(spec)} {hx(d)} {fn} {hx(data)}"])[0]
            if m != f"ok {hx(out)} {hx(got_sent)}":
                pvlib.report_violation(ctx, "corr:cache.run", {"ops": [f"cache.run {hx(spec)} {hx(d)} {fn} {hx(data)}"], "impl": f"ok {hx(out)} {hx(got_sent)}"[:600], "model": m[:600],
                                       "correspondence": "PV.Cache.run / childInput vs bin/cache"}, no_input=True, summary="cache model/impl differ")
                break
        r, ev = wrappers.accept("cache", trace)
        ctx.cov["traces_validated_against_impl"] = ctx.cov.get("traces_validated_against_impl", 0) + 1
        if r.startswith("skipped"):
            ctx.cov["traces_not_validated_acceptor_timeout"] = ctx.cov.get("traces_not_validated_acceptor_timeout", 0) + 1
            ctx.cov["traces_validated_against_impl"] -= 1
        elif not r.startswith("accepted"):
            pvlib.report_violation(ctx, "corr:cache-trace", {"verdict": r, "events_head": ev[:60]}, no_input=True,
                                   summary=f"cache: event trace not accepted by the wrapper automaton: {r}")
            break

    # exit status = the child's exit status, also when cache itself was started with an unrelated, already terminated child (a
    # shell's process substitution or an earlier background job survives execve), with repeats in the input
    import sys
    child = os.path.join(pvlib.VERIF, "harness", "children", "child.py")
    decoy = os.path.join(pvlib.VERIF, "harness", "children", "with_decoy.py")
    lines = [b"k%d" % (i % 40) for i in range(300)]
    data = b"".join(l + b"\n" for l in lines)
    for launcher in ([], [sys.executable, decoy]):
        for code in (0, 3, 42, 129, 137, 143, 147, 192, 255):      # codes above 128 are exit codes like any other, not signals
            argv = launcher + [ctx.bin("cache"), sys.executable, child, "afterall", "exit", str(code)]
            st, out, err = pvlib.run_tool(argv, data, env=pvlib.san_env(), timeout=30)
            ctx.count("cache-exit-status", 1, [(bool(launcher), code)])
            if st != code or out != data:
                pvlib.report_violation(ctx, f"cache-status:{'decoy' if launcher else 'plain'}:{code}", {
                    "argv": (["python3", "harness/children/with_decoy.py"] if launcher else []) + ["cache", "python3", "harness/children/child.py", "afterall", "exit", str(code)],
                    "stdin_hex": hx(data), "status": st, "stderr": err.decode(errors="replace")[-300:]},
                    summary=f"cache{' started with an unrelated terminated child' if launcher else ''}: the captive child answered every line and exited {code}; "
                            f"cache exited {st}, output {'equal' if out == data else 'differs'}")
                return

    # the answer store: cache keeps every distinct answer in a util::Pool, whose pages double from 32 bytes; "any input" includes more
    # than 2 GiB of distinct answers, i.e. pages 26 and 27 (2 and 4 GiB).  The pool is driven in-process without touching the memory.
    for k in (25, 26, 27):
        x = pvlib.run_lines(ctx.impl(), [f"pool.pages {k}"], env=pvlib.san_env(), timeout=300)[0]
        ctx.count("pool.pages", 1, [k])
        if not x.startswith("ok "):
            pvlib.report_violation(ctx, f"pool-pages:{k}", {"ops": [f"pool.pages {k}"], "impl": x[:300]},
                                   summary=f"util::Pool (cache's answer store) asked for pages 0..{k} (32*2^j bytes each, {(64 << k) - 32} bytes in all): {x[:160]}")
            break


def replay(ctx, rp):
    argv = rp["argv"]
    i = argv.index("python3")
    st, out, err, trace = wrappers.run_traced(ctx, argv[:i], pvlib.unhx(rp["stdin_hex"]), argv[i + 2:], child_fn=rp.get("env", {}).get("PV_CHILD_FN", "id"), timeout=30,
                                              pauses=rp.get("stdin_stalls_at_byte_offsets"))
    print("status", st, "stdout", out[:500])
