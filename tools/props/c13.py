"""C13 — the seen-set answers membership correctly after any insertion history."""
import itertools
import pvlib
from pvlib import hx

LEVEL = "proof"
RULE = ("real util::AutoProbing<Entry,IdentityHash> in-process vs the Lean model, op by op (answers, stored values, bucket count "
        "after every op): engineered prefixes (keys colliding modulo 8/16/32/64, clusters wrapping from the last bucket to the "
        "first, keys that move or stay on doubling) x all suffixes of <= 2 ops over a 10-key universe followed by lookups of the "
        "whole universe; seeded random histories up to 300k keys (quick) / 5M (thorough, crossing the malloc->mmap switch); after "
        "each history the implementation's real bucket array is fed to the Lean invariant (PV.Spec.TableInv.check); oracle for "
        "answers = finite map (PV.Spec.Map); bin/vocab and bin/substitute (values kept in the entries) against their Lean models and "
        "table-free specifications, substitute also on 260k (2.5M) lines; non-trivial = distinct history")
ASSUMPTIONS = ["HugeRealloc zero-fills the new half (mremap / calloc contract)", "keys are non-zero (0 is the empty-bucket marker)",
               "model transcribes util/probing_hash_table.hh by hand"]


def fmt(ops, model=False):
    """i = FindOrInsert, f = Find, n = Insert() of a key that is not there yet, the value written through the returned iterator (for the
    model and the finite map that is an insert-if-absent of an absent key)"""
    return ",".join(f"{'i' if (t == 'i' or model) else 'n'}:{k}:{v}" if t in ("i", "n") else f"f:{k}" for (t, k, v) in ops)


def prefixes(rng, n):
    out = []
    for size in (8, 16, 32, 64, 128):
        for _ in range(n):
            cnt = rng.randrange(3, size)          # enough to force doublings up to this size
            mode = rng.random()
            keys = []
            if mode < 0.35:      # one residue class, wrapping the end
                base = rng.choice([size - 1, size - 2, 0, 1])
                keys = [base + size * j for j in rng.sample(range(1, 60), min(cnt, 40))]
            elif mode < 0.45:    # a long run from bucket 0 made of keys that wrapped from the last buckets, then enough keys
                                 # near the end of the table to force the doubling while the run is in place
                keys = [size - 1 - (j % 3) + size * rng.randrange(1, 40) for j in range(min(cnt, 17 + rng.randrange(0, 12)))]
                keys += [size - 4 - rng.randrange(0, 6) + size * rng.randrange(1, 9) for _ in range(size)]
            elif mode < 0.7:     # cluster straddling the last bucket, mixed stay/move keys
                for j in range(cnt):
                    b = (size - 3 + rng.randrange(0, 5)) % size
                    keys.append(b + size * rng.randrange(1, 9))
            else:
                keys = [rng.randrange(1, 4 * size) for _ in range(cnt)]
            keys = [k for k in dict.fromkeys(keys) if k != 0]
            out.append(keys)
    return out


def wrap_cases(rng):
    """key sets built for one doubling N -> 2N: a run of r occupied buckets from bucket 0, the last t buckets occupied by keys that
    MOVE to the upper half when the table doubles, then a key W whose home is one of those last buckets, which therefore wraps
    around to the end of the run and which STAYS in the lower half; fillers in the middle up to the growth threshold; one more
    insert forces the doubling.  (Reaching N buckets first takes the earlier doublings, which the fillers' order randomises.)"""
    out = []
    for N in (32, 64, 128, 256):
        T = (3 * N) // 4
        for r in (1, 8, 15, 16, 17, 20, 63, 64, 65, 70):
            for t in (1, 2, 3):
                if r + t + 1 >= T:
                    continue
                run_keys = [b + N * rng.choice([1, 2, 3, 5, 6]) for b in range(r)]
                run_keys = [k if k % N != 0 or k != 0 else N for k in run_keys]
                tail = [(N - 1 - j) + N * rng.choice([1, 3, 5]) for j in range(t)]                # odd multiple: home moves to the upper half
                W = [(N - 1 - rng.randrange(t)) + 2 * N * rng.randrange(1, 5) for _ in range(rng.choice([1, 2]))]   # even multiple: stays
                mid = list(range(r + 2, N - t - 2))
                rng.shuffle(mid)
                fill = [b + N * rng.randrange(1, 6) for b in mid[:max(0, T - (r + t + len(W)))]]
                keys = list(dict.fromkeys(k for k in run_keys + tail + W + fill if k != 0))
                out.append(keys + [N * 2 * 7 + r + 3])            # the insert that triggers the doubling
    return out


def run(ctx):
    rng = ctx.rng
    universe = [7, 15, 23, 8, 16, 31, 1, 63, 64, 6]
    suffixes = [()]
    single = [("i", k, 900 + k) for k in universe] + [("f", k, 0) for k in universe]
    suffixes += [(a,) for a in single]
    suffixes += [(a, b) for a in single[:10] for b in single]
    hist = []
    for pre in prefixes(rng, 6 if ctx.tier == "quick" else 40):
        p = [("i", k, i + 1) for i, k in enumerate(pre)]
        for s in (suffixes if ctx.tier != "quick" else rng.sample(suffixes, 40)):
            # afterwards every key inserted so far is looked up, and some are inserted again (must be reported as repeats)
            hist.append(p + list(s) + [("f", k, 0) for k in universe] + [("f", k, 0) for k in pre] + [("i", k, 7777) for k in pre[::5]])
    for keys in wrap_cases(rng):
        hist.append([("i", k, i + 1) for i, k in enumerate(keys)] + [("f", k, 0) for k in keys] + [("i", k, 7777) for k in keys[::4]])
    # AutoProbing::Insert (no lookup first) with the value written through the iterator it returns, across every doubling up to 512
    # buckets.  Insert grows one insertion earlier than FindOrInsert, so these histories are judged by their answers (finite map)
    # only, not by growth points.
    hist_n = []
    for cnt in (5, 6, 7, 12, 13, 24, 25, 48, 49, 96, 97, 200, 400):
        ks = rng.sample(range(1, 100000), cnt)
        hist_n.append([("n", k, 5000 + i) for i, k in enumerate(ks)] + [("f", k, 0) for k in ks])
        ks2 = [1 + 8 * j for j in range(cnt)]                         # keys that all collide modulo the small table sizes
        hist_n.append([("n", k, 9000 + i) for i, k in enumerate(ks2)] + [("f", k, 0) for k in ks2])
    nops = ["table.run " + fmt(h) for h in hist_n]
    na = pvlib.run_lines(ctx.impl(), nops, env=pvlib.san_env(), timeout=600, stall=30)
    nspec = pvlib.run_lines(pvlib.PVDRIVER, ["table.spec.run " + fmt(h, model=True) for h in hist_n])
    ctx.count("table.run.insert", len(nops), nops)
    for o, x, sp_ in zip(nops, na, nspec):
        w = x.split()
        got = "ok " + " ".join(t.split("|")[0] for t in w[1:]) if w and w[0] == "ok" else x
        if got != sp_:
            gl, sl = got.split(), sp_.split()
            k = next((i for i, (p_, q_) in enumerate(zip(gl, sl)) if p_ != q_), min(len(gl), len(sl)))
            pvlib.report_violation(ctx, "table-insert:" + o[:120], {"ops": [o[:4000]], "impl_answers": got[:600], "finite_map": sp_[:600], "first_difference_at_op": k},
                                   summary=f"Insert() + value through the returned iterator, {o[10:70]}...: op {k} answers {gl[k] if k < len(gl) else x[:40]} "
                                           f"but a finite map answers {sl[k] if k < len(sl) else None}")
            break
    # exhaustive short insert sequences from the empty table
    for n in range(1, 4 if ctx.tier == "quick" else 5):
        for t in itertools.product(universe[:8], repeat=n):
            hist.append([("i", k, i + 1) for i, k in enumerate(t)] + [("f", k, 0) for k in universe[:8]])
    ops = ["table.run " + fmt(h) + " layout" for h in hist]
    bad, a, b = pvlib.diff_streams(ctx, "table.run", ops, nontrivial=lambda l, x, y: True, stall=20)
    # oracle on the implementation's answers: finite map
    spec = pvlib.run_lines(pvlib.PVDRIVER, ["table.spec.run " + fmt(h) for h in hist])

    def answers(x):
        w = x.split()
        if not w or w[0] != "ok":
            return x
        if "L" in w:
            w = w[:w.index("L")]
        return "ok " + " ".join(t.split("|")[0] for t in w[1:])
    viol = [(o, answers(x), s) for o, x, s in zip(ops, a, spec) if answers(x) != s and "skipped" not in x]
    if viol:
        viol.sort(key=lambda v: len(v[0]))
        o, x, s = viol[0]
        pvlib.report_violation(ctx, "table:" + o[:150], {"ops": [o], "impl_answers": x, "finite_map": s},
                               summary=f"history {o[10:110]}...: table answers {x[:80]} but a finite map answers {s[:80]}")
    elif bad:
        i, o, x, y = bad[0]
        pvlib.report_violation(ctx, "corr:table.run", {"ops": [o], "impl": x[:2000], "model": y[:2000],
                               "correspondence": "PV.Table.run vs util::AutoProbing (answers, growth points, bucket layout)"},
                               no_input=True, summary=f"table model/impl differ (layout or growth point) on {o[:100]}")
    # Lean invariant on the implementation's real layouts
    inv_ops = []
    for x in a:
        w = x.split()
        if "L" in w:
            keys = [t.split(":")[0] for t in w[w.index("L") + 1:]]
            inv_ops.append("table.inv " + " ".join(keys))
    inv = pvlib.run_lines(pvlib.PVDRIVER, inv_ops)
    ctx.cov["layouts_checked_against_Inv"] = len(inv_ops)
    for o, r, h in zip(inv_ops, inv, ops):
        if r != "inv-ok":
            pvlib.report_violation(ctx, "table-inv:" + h[:150], {"ops": [h], "layout_keys": o[10:2000], "verdict": r},
                                   no_input=True, summary="the implementation's bucket array violates the probing invariant the proofs rest on")
            break
    if ctx.violations:
        return          # the small domain already shows the failure; the large histories would only add waiting time
    # bin/vocab = the seen-set over words: every distinct word once, in order of first appearance, NUL-terminated
    wpool = [b"a", b"b", b"the", b"caf\xc3\xa9", b"x" * 300, b"\xff", b"0", b"word"]
    for _ in range(40 if ctx.tier == "quick" else 400):
        ws = [rng.choice(wpool) if rng.random() < 0.7 else b"w%d" % rng.randrange(200) for _ in range(rng.randrange(0, 60))]
        data = b"".join(w + rng.choice([b" ", b"\n", b"\t", b"\r\n", b"  ", b"\0", b" \n "]) for w in ws)
        if ws and rng.random() < 0.3:
            data = data.rstrip(b" \n\t\r\0")
        st, out, err = pvlib.run_tool([ctx.bin("vocab")], data, env=pvlib.san_env(), timeout=30)
        ctx.count("vocab", 1, [data])
        want = b"".join(w + b"\0" for w in dict.fromkeys(ws))
        m = pvlib.run_lines(pvlib.PVDRIVER, ["tools.vocab " + hx(data)])[0]
        if st != 0 or out != want:
            pvlib.report_violation(ctx, "vocab:" + hx(data)[:60], {"argv": ["vocab"], "stdin_hex": hx(data), "status": st, "got": hx(out)[:400], "want": hx(want)[:400]},
                                   summary=f"vocab on {data[:60]!r}: printed {out[:60]!r}, the distinct words in order of first appearance are {want[:60]!r} (status {st})")
            break
        if m != "ok " + hx(out):
            pvlib.report_violation(ctx, "corr:tools.vocab", {"ops": ["tools.vocab " + hx(data)], "impl": hx(out), "model": m,
                                   "correspondence": "PV.Tools2.vocab vs bin/vocab"}, no_input=True, summary="vocab model/impl differ")
            break
    # util::MutableVocab (word -> id through the same table, keyed by the word's 64-bit hash): distinct words get distinct consecutive ids,
    # repeats get their first id, also for two words whose hashes agree in the low 32 bits (keys that collide modulo EVERY table size)
    pair = pvlib.low32_pair(0, b"w")
    # (no empty word: its hash is 0, the table's empty-bucket marker, and no tool passes one)
    vw = [b"the", b"cat", b"the", b"caf\xc3\xa9", b"x", b"cat"] + ([pair[0], b"mid", pair[1], pair[0]] if pair else []) + [b"w%d" % i for i in range(300)] + [b"w7"]
    ids, nxt, want_ids = {}, 1, []
    for w_ in vw:
        if w_ not in ids:
            ids[w_] = nxt
            nxt += 1
        want_ids.append(ids[w_])
    x = pvlib.run_lines(ctx.impl(), ["mvocab.run " + " ".join(hx(w_) for w_ in vw)], env=pvlib.san_env())[0]
    ctx.count("mvocab.run", 1, [len(vw)])
    want_x = "ok " + " ".join(map(str, want_ids)) + " | " + " ".join(map(str, want_ids)) + f" size={nxt}"
    if x != want_x:
        gl, wl = x.split(), want_x.split()
        k = next((i for i, (p_, q_) in enumerate(zip(gl, wl)) if p_ != q_), min(len(gl), len(wl)))
        pvlib.report_violation(ctx, "mvocab:" + hx(b" ".join(vw[:12]))[:80], {"ops": ["mvocab.run " + " ".join(hx(w_) for w_ in vw)], "impl": x[:600], "want": want_x[:600],
                               "low32_pair": [p_.decode() for p_ in pair] if pair else None},
                               summary=f"MutableVocab on {len(vw)} words (incl. {pair[0].decode() if pair else '-'} and {pair[1].decode() if pair else '-'}, whose 64-bit hashes differ only in the high 32 bits): "
                                       f"answer {k} is {gl[k] if k < len(gl) else None}, a vocabulary gives {wl[k] if k < len(wl) else None}")
    # the same class against its Lean model (PV.MVocab over the table model; theorems mvocab_refines / mvocab_strings_attached) and the model
    # against the first-occurrence specification: random word lists with many repeats, words of every length 1..40 (all tail lengths of the
    # hash), and the empty word, whose hash is 0: model and implementation must agree on it too (both answer kUNK; the specification and the
    # theorems exclude key 0, as C13 does)
    mlines = []
    for it in range(40 if ctx.tier == "quick" else 400):
        n = rng.randrange(0, 80)
        base_ws = [bytes(rng.choice(b"abc\xc3\xa9 \x00\xff") for _ in range(rng.randrange(1, 6))) for _ in range(rng.randrange(1, 30))]
        ws_ = [rng.choice(base_ws) if rng.random() < 0.8 else b"z" * rng.randrange(1, 41) for _ in range(n)]
        if it % 5 == 0:
            ws_.insert(rng.randrange(0, len(ws_) + 1), b"")
        mlines.append("mvocab.run " + " ".join(hx(w_) for w_ in ws_))
    ia = pvlib.run_lines(ctx.impl(), mlines, env=pvlib.san_env())
    ma = pvlib.run_lines(pvlib.PVDRIVER, mlines)
    sa = pvlib.run_lines(pvlib.PVDRIVER, [l.replace("mvocab.run", "mvocab.spec.run", 1) for l in mlines])
    ctx.count("mvocab.model", len(mlines), mlines)
    for l, xi, xm, xs in zip(mlines, ia, ma, sa):
        has_empty = " - " in l + " "
        if xi != xm:
            if not has_empty and xm == xs:
                pvlib.report_violation(ctx, "mvocab:" + l[:80], {"ops": [l], "impl": xi[:600], "want": xs[:600]},
                                       summary=f"MutableVocab on {len(l.split()) - 1} words: {xi[:100]}; a vocabulary (first-occurrence ids) gives {xs[:100]}")
            else:
                pvlib.report_violation(ctx, "corr:mvocab", {"ops": [l], "impl": xi[:600], "model": xm[:600], "correspondence": "PV.MVocab vs util::MutableVocab"},
                                       no_input=True, summary=f"MutableVocab model/impl differ: impl {xi[:100]} model {xm[:100]}")
            break
        if not has_empty and xm != xs:
            pvlib.report_violation(ctx, "corr:mvocab-spec", {"ops": [l], "model": xm[:600], "spec": xs[:600], "correspondence": "PV.MVocab vs its specification (theorem insertAll_refines)"},
                                   no_input=True, summary="MutableVocab model and specification differ")
            break
    # bin/substitute = VALUES in the table entries, written through the iterator FindOrInsert returns: the first line of every
    # sentence pair is copied and its 5th field remembered; every later line with the same pair is printed with the remembered
    # field.  Small cases through the Lean model and its table-free specification (theorem substitute_refines); a large one
    # (keys across many doublings and the malloc -> mmap transition, repeats far apart) against the same rule in Python.
    def subst_ref(lines):
        first, outl = {}, []
        for l in lines:
            f = l.split(b"\t")
            if len(f) < 6:
                return None
            k = (f[2], f[3])
            if k in first:
                outl.append(b"\t".join(f[:4] + [first[k]] + f[5:]))
            else:
                first[k] = f[4]
                outl.append(l)
        return outl
    atoms = [b"", b"a", b"b", b"c d", b"\xc3\xa9"]
    for it in range(60 if ctx.tier == "quick" else 600):
        nl = rng.randrange(0, 40)
        lines = []
        for j in range(nl):
            nf = rng.choice([6, 6, 6, 7, 9]) if rng.random() < 0.97 else rng.randrange(0, 6)
            if nf >= 6:
                lines.append(b"\t".join([rng.choice(atoms) for _ in range(4)] + [b"v%d" % j] + [rng.choice(atoms) for _ in range(nf - 5)]))
            else:
                lines.append(b"\t".join(rng.choice(atoms) for _ in range(nf)))
        data = b"".join(l + b"\n" for l in lines)
        st, out, err = pvlib.run_tool([ctx.bin("substitute")], data, env=pvlib.san_env(), timeout=30)
        ctx.count("substitute", 1, [data])
        ms = pvlib.run_lines(pvlib.PVDRIVER, ["tools.substitute " + hx(data), "tools.spec.substitute " + hx(data)])
        got = "ok " + hx(out) if st == 0 else "ERR"
        if got != ms[1]:
            pvlib.report_violation(ctx, "substitute:" + hx(data)[:80], {"argv": ["substitute"], "stdin_hex": hx(data), "status": st, "got": got[:600], "spec": ms[1][:600],
                                   "stderr": err.decode(errors="replace")[-300:]},
                                   summary=f"substitute on {data[:70]!r}: {'status ' + str(st) if st != 0 else 'printed ' + repr(out[:70])}, the specification (value of the first line "
                                           f"with the same sentence pair) gives {ms[1][:60]}")
            break
        if got != ms[0]:
            pvlib.report_violation(ctx, "corr:tools.substitute", {"ops": ["tools.substitute " + hx(data)], "impl": got[:600], "model": ms[0][:600],
                                   "correspondence": "PV.Substitute.substitute vs bin/substitute"}, no_input=True, summary="substitute model/impl differ")
            break
    nbig = 260000 if ctx.tier == "quick" else 2500000
    big = []
    for i in range(nbig):
        k = i if rng.random() < 0.75 else rng.randrange(0, i + 1)
        big.append(b"id%d\tsrc\tsentence %d\ttranslation %d\tvalue-of-line-%d\ttail %d" % (i, k, k * 7, i, i % 13))
    data = b"".join(l + b"\n" for l in big)
    st, out, err = pvlib.run_tool([ctx.bin("substitute")], data, env=pvlib.san_env(), timeout=900)
    ctx.count("substitute.large", 1, [nbig])
    want = subst_ref(big)
    gl = out.split(b"\n")[:-1]
    if st != 0 or gl != want:
        k = next((i for i, (p_, q_) in enumerate(zip(gl, want)) if p_ != q_), min(len(gl), len(want)))
        pvlib.report_violation(ctx, f"substitute-large:{nbig}", {"argv": ["substitute"], "generator": f"{nbig} lines, 75% new sentence pairs, repeats at any distance (seed {ctx.seed})",
                               "status": st, "first_diff_line": k, "got": hx(gl[k][:200]) if k < len(gl) else None, "want": hx(want[k][:200]) if k < len(want) else None},
                               summary=f"substitute on {nbig} lines: output line {k} is {gl[k][:80] if k < len(gl) else None!r}, the value remembered for that sentence pair gives "
                                       f"{want[k][:80] if k < len(want) else None!r} (status {st})")
    # bulk growth through every allocation regime (malloc -> 2 MiB -> mmap -> mremap ...), audited in the harness against
    # the finite map after every doubling, for the 8-byte (dedupe's seen-set) and the 16-byte (key + value) entry
    for entry, n in ((8, 2_000_000), (16, 1_200_000)) if ctx.tier == "quick" else ((8, 20_000_000), (16, 12_000_000)):
        op = f"table.bulk {n} {ctx.seed} {entry}"
        x = pvlib.run_lines(ctx.impl(), [op], env=pvlib.san_env(), timeout=1800, stall=900)[0]
        ctx.count("table.bulk", 1, [(entry, n)])
        ctx.cov.setdefault("bulk", []).append(x[:80])
        if not x.startswith("ok "):
            pvlib.report_violation(ctx, f"table-bulk:{entry}:{n}", {"ops": [op], "impl": x[:300]},
                                   summary=f"{n} distinct keys inserted into a table of {entry}-byte entries: {x[:200]}")
    # the same growth when the kernel refuses every large anonymous mapping (ENOMEM: address-space or overcommit limit): the table must
    # carry on on the heap with identical answers.  The heap is told to hand out DIRTY blocks (malloc_fill_byte), as a long-running
    # process's heap does, so memory that the table wrongly assumes to be zero shows.
    for entry, n in ((8, 700_000), (16, 400_000)):
        op = f"table.bulk {n} {ctx.seed} {entry} enomem"
        e_ = pvlib.san_env()
        e_["ASAN_OPTIONS"] += ":max_malloc_fill_size=1073741824:malloc_fill_byte=190"
        x = pvlib.run_lines(ctx.impl(), [op], env=e_, timeout=900, stall=600)[0]
        ctx.count("table.bulk.enomem", 1, [(entry, n)])
        ctx.cov.setdefault("bulk_enomem", []).append(x[:100])
        if not x.startswith("ok "):
            pvlib.report_violation(ctx, f"table-bulk-enomem:{entry}:{n}", {"ops": [op], "impl": x[:300], "env": {"ASAN_OPTIONS": "...:max_malloc_fill_size=1073741824:malloc_fill_byte=190"}},
                                   summary=f"{n} distinct keys inserted into a table of {entry}-byte entries while every anonymous mapping >= 1 MiB is refused (ENOMEM) and the heap hands out dirty blocks: {x[:200]}")
            break
    if ctx.violations:
        return
    # large random histories (duplicates at random distance), answers + growth points
    sizes = [20000, 300000] if ctx.tier == "quick" else [20000, 300000, 5000000]
    for n in sizes:
        keys = []
        space = n * 2
        for i in range(n):
            r = rng.random()
            if r < 0.3 and keys:
                keys.append(keys[rng.randrange(len(keys))])
            else:
                keys.append(rng.randrange(1, space) * rng.choice([1, 1, 8, 1024, 1 << 20]) % (1 << 64) or 1)
        h = []
        for i, k in enumerate(keys):
            h.append(("i", k, i + 1))
            if i % 7 == 0:
                h.append(("f", rng.randrange(1, space), 0))
        op = "table.run " + fmt(h)
        x = pvlib.run_lines(ctx.impl(), [op], env=pvlib.san_env(), timeout=1800, stall=600)[0]
        y = pvlib.run_lines(pvlib.PVDRIVER, [op], timeout=1800, stall=1500)[0]
        s = pvlib.run_lines(pvlib.PVDRIVER, ["table.spec.run " + fmt(h)], timeout=1800, stall=1500)[0] if n <= 20000 else None
        ctx.count("table.run.large", 1, [n])
        ctx.cov.setdefault("large_final_buckets", []).append(x.rsplit("|", 1)[-1][:12])
        if s is not None and answers(x) != s:
            pvlib.report_violation(ctx, f"table-large:{n}", {"ops": [op[:100000]], "n": n}, summary=f"random history of {n} keys: answers differ from a finite map")
        elif x != y:
            # locate first differing op
            xa, ya = x.split(), y.split()
            k = next((i for i, (p, q) in enumerate(zip(xa, ya)) if p != q), min(len(xa), len(ya)))
            pvlib.report_violation(ctx, f"table-large:{n}", {"ops": ["table.run " + fmt(h[:k + 1])][:1], "first_diff_op": k,
                                   "impl": xa[k - 2:k + 2], "model": ya[k - 2:k + 2]},
                                   no_input=False if s is None else True,
                                   summary=f"random history of {n} keys: model (proved equal to a finite map) and implementation differ at op {k}: "
                                           f"{xa[k] if k < len(xa) else None} vs {ya[k] if k < len(ya) else None}")


def replay(ctx, rp):
    pvlib.generic_replay(ctx, rp)
