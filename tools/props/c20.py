"""C20 — no input makes a tool touch memory out of bounds, use garbage, or hang."""
import base64, gzip, bz2, lzma, os, sys
import pvlib, toolset
from pvlib import hx

LEVEL = "proof"
RULE = ("(i) formatter obligations: util::ToString for bool/uint16/int16/uint32/int32/uint64/int64/pointer/float/double called "
        "in-process on boundary and seeded values with a sentinel-filled guard buffer; the bytes actually touched (incl. the "
        "StringBuilder's NUL and the 16-byte SSE stores) must equal the Lean model's count and stay within ToStringBuf<T>::kBytes, "
        "which is regenerated from the headers; FakeOStream << double at every offset near the end of the 8 KiB buffer under ASan; "
        "(ii) every executable on an adversarial corpus (ill-formed UTF-8, NUL bytes, empty lines/documents, 1 MiB lines, empty input, "
        "malformed base64 / WARC / field lists / option values, truncated and corrupt gz/bz2/xz) under ASan+UBSan with a timeout: the "
        "run must end by exit or by a diagnosed error (uncaught exception message), never by a sanitizer report, SIGSEGV/SIGFPE/"
        "SIGBUS or timeout; non-trivial = distinct (tool, args, input)")
ASSUMPTIONS = ["memory safety outside the modelled obligations is observed by sanitizers on these runs, not proved",
               "std::terminate after an uncaught exception with a what() message counts as a diagnosed error",
               "double-conversion produces at most 17 (double) / 9 (float) significant digits with decimal point in [-323,309] / [-44,39]"]


def diagnosed_ok(st, err):
    """True if the ending is acceptable."""
    if st == "HANG":
        return False
    if pvlib.san_kind(err) or st in (97, 98):
        return False
    if isinstance(st, int):
        return True
    if st == "sig6":     # abort: fine if it is terminate() with a message or an explicit abort after a message
        return b"terminate called" in err or b"what()" in err or len(err.strip()) > 0
    if st == "sig13":    # SIGPIPE when a child went away
        return True
    return False


def corpus(rng):
    mb = b"x" * (1 << 20)
    c = {
        "empty": b"", "newline": b"\n", "nuls": b"\x00\x00\n\x00a\x00\n", "invalid-utf8": b"ok\n\xff\xfe bad \xc0\xaf\n\xed\xa0\x80\n\xf4\x90\x80\x80 x\n",
        "empty-lines": b"\n\n\n\n", "long-line": mb + b"\n", "long-line-nonl": mb, "cr": b"a\r\nb\r\r\n\r", "tabs": b"\t\t\t\n a \t b\t\n",
        "bad-b64": b"!!!!\n====\n=\nQQ\nQQ=\x7f\n\n" + base64.b64encode(b"x" * 5000) + b"\n", "b64-empty-docs": b"\n\n" + base64.b64encode(b"\n\n") + b"\n",
        "bad-warc": b"WARC/1.0\r\nContent-Length: 99999999999999999999\r\n\r\nxx", "warc-neg": b"WARC/1.0\r\nContent-Length: -1\r\n\r\n\r\n\r\n",
        "warc-huge": b"WARC/1.0\r\nContent-Length: 9223372036854775807\r\n\r\n", "warc-trunc": b"WARC/1.0\r\nContent-Le",
        "binary": bytes(rng.randrange(256) for _ in range(5000)),
        # base64 with more '=' than padding needs, short and long, after a longer document
        "b64-overpadded": b"dzAw=\nd29yZHM==\nQUI===\n" + base64.b64encode(b"y" * 300) + b"\n" + b"QUJD" * 100 + b"=" * 400 + b"\nQUJD====\n",
        "b64-overpadded-big": base64.b64encode(b"z" * 30000).rstrip(b"=") + b"=" * 20000 + b"\n" + b"QUJD\n",
        "b64-glued": b"QUI=QUJD\nYcOpw6nDqQ==\nQcM=QUJD\n4oKseHl6\nQcM=QUJD\n",
        "gz-trunc": gzip.compress(b"hello world\n" * 1000)[:200], "gz-empty": gzip.compress(b""), "gz-corrupt": gzip.compress(b"abc\n" * 500)[:40] + b"\xff" * 40,
        "bz2-trunc": bz2.compress(b"hello world\n" * 1000)[:60], "bz2-corrupt": bz2.compress(b"abc\n" * 500)[:30] + b"\x00" * 50,
        "xz-trunc": lzma.compress(b"hello world\n" * 1000)[:80], "gz-then-junk": gzip.compress(b"a\n") + b"junk after member\n",
        "tsv-short": b"a\tb\n\n\t\t\t\t\t\n", "tsv-wide": b"a\tb\tc\td\te\tf\tg\th\n" * 3 + b"\n1\t2\t3\n", "xml": b"<DOC>\n<TEXT>\n<P>\n&amp; &lt; (BEGIN BRACKET) x\n</P>\n", "words": b"the " * 20000 + b"\n",
    }
    # WARC lengths for which header bytes + length + 4 wraps around 2^64 to 0..5 (and the same around 2^63 and 2^32)
    # (not around 2^32: such a length is merely a 4 GiB record that is missing - the tool allocates 4 GiB, reads to the end of the input and
    # reports it, which is correct and takes as long as zero-filling 4 GiB takes)
    for mod_, nm in ((1 << 64, "64"), (1 << 63, "63")):
        for t in range(0, 6):
            digits = len(str(mod_ - 60))
            hl = len(b"WARC/1.0\r\nContent-Length: \r\n\r\n") + digits
            v = mod_ - hl - 4 + t
            if len(str(v)) == digits:
                c[f"warc-wrap{nm}-{t}"] = b"WARC/1.0\r\nContent-Length: %d\r\n\r\nabc\r\n\r\n" % v + b"WARC/1.0\r\nContent-Length: 1\r\n\r\nx\r\n\r\n"
    return c


def decoder_part(ctx):
    """util::DecodeUTF8 / IsUTF8 on ill-formed text that ENDS inside a multi-byte sequence, in a heap block of exactly that size: nothing
    behind the text may be read (ASan), whatever the verdict"""
    trunc = [b"\xe2\x82", b"\xf0\x9f", b"\xf0\x9f\x98", b"\xc3", b"\xe2", b"\xf0", b"ab\xe2\x82", b"x\xf0\x9f\x98", b"\xed\xa0", b"\xf4\x8f\xbf", b"\xe2\x82\xac\xe2\x82", b"\x80", b"\xbf\xbf"]
    ops = ["utf8.decode " + hx(t) for t in trunc] + [f"utf8.isutf8 {hx(t)} {al}" for t in trunc for al in (0, 3, 7)]
    res = pvlib.run_lines(ctx.impl(), ops, env=pvlib.san_env(), timeout=120)
    ctx.count("decoder-truncated", len(ops), ops)
    for o, x in zip(ops, res):
        if x.startswith("SAN") or x.startswith("CRASH") or x.startswith("HANG") or not (x.startswith("ok") or x.startswith("ERR") or x in ("true", "false")):
            pvlib.report_violation(ctx, "c20:decoder:" + o, {"ops": [o], "impl": x[:300]},
                                   summary=f"{o} (the text ends inside a multi-byte sequence, in a heap block of exactly its size): {x[:120]}")
            return


def run(ctx):
    rng = ctx.rng
    formatter_part(ctx)
    decoder_part(ctx)
    pool_part(ctx)
    tools = []
    sub = os.path.join(ctx.tmp, "sub.txt")
    open(sub, "wb").write(b"a\n\xff\n")
    model = os.path.join(ctx.tmp, "tc.model")
    open(model, "wb").write(b"The (10/12) the (2/12)\ncat (5/5)\n")
    emptyf = os.path.join(ctx.tmp, "empty.txt")
    open(emptyf, "wb").write(b"")
    child_cat = ["cat"]
    T = [("dedupe", []), ("dedupe", ["-f", "2"]), ("dedupe", ["-f", "0"]), ("dedupe", ["-f", "1-2-3"]), ("dedupe", ["-f", ""]), ("dedupe", ["-d", "ab"]),
         # ranges that are empty or backwards by one, alone and inside a list
         ("dedupe", ["-f", "3-2"]), ("dedupe", ["-f", "1-0"]), ("dedupe", ["-f", "-0"]), ("dedupe", ["-f", "1,3-2"]), ("dedupe", ["-f", "2-2"]), ("dedupe", ["-f", "5-4,7"]),
         ("cache", ["-k", "3-2", "cat"]), ("cache", ["-k", "-0", "cat"]), ("dedupe", ["-f", "1,2,2"]), ("dedupe", ["-f", "3-,1"]),
         ("cache", child_cat), ("cache", ["-k", "2", "cat"]), ("foldfilter", ["-w", "7", "cat"]), ("foldfilter", ["-w", "0", "cat"]), ("foldfilter", ["-w", "-3", "cat"]),
         ("foldfilter", ["-w", "3", "-s", "-d", "", "cat"]), ("b64filter", child_cat), ("base64_number", []), ("docenc", []), ("docenc", ["-d"]), ("docenc", ["-d", "-0", "2-1"]),
         ("docenc", ["-0", "99999999999999999999"]), ("commoncrawl_dedupe", []), ("commoncrawl_dedupe", [sub]), ("idf", []), ("mmhsum", []), ("order_independent_hash", []),
         ("remove_invalid_utf8", []), ("remove_invalid_utf8_base64", []), ("remove_long_lines", ["5"]), ("remove_long_lines", ["-1"]), ("remove_long_lines", ["x"]),
         ("shard", ["--prefix", os.path.join(ctx.tmp, "sh"), "--number", "3"]), ("shard", ["--prefix", os.path.join(ctx.tmp, "sz"), "--number", "0"]),
         ("shard", ["-c", "gzip", os.path.join(ctx.tmp, "a.gz"), os.path.join(ctx.tmp, "b.gz")]), ("shard", ["-c", "lz4", os.path.join(ctx.tmp, "q")]),
         ("substitute", []), ("subtract_lines", [sub]), ("subtract_lines", [emptyf]), ("vocab", []), ("warc_parallel", ["cat"]), ("warc_parallel", ["-j", "3", "-z", "cat"]), ("warc_parallel", ["-j", "0", "cat"]),
         ("process_unicode", ["--lower", "--flatten", "--normalize"]), ("process_unicode", ["-l", "xx", "--flatten"]), ("simple_cleaning", []),
         ("simple_cleaning", ["-f", "2", "--min-chars", "0"]), ("gigaword_unwrap", []), ("truecase", ["--model", model]), ("truecase", ["--model", emptyf]),
         ("apply_case", [emptyf, emptyf, emptyf, emptyf]), ("train_case", [emptyf, emptyf, emptyf])]
    cps = corpus(rng)
    names = sorted(cps)
    n_ok = 0
    for (tool, args) in T:
        picks = names if ctx.tier != "quick" else rng.sample(names, 9) + ["empty", "invalid-utf8", "bz2-trunc", "gz-empty"] + ([n for n in names if "warc" in n] if tool.startswith("warc") else []) + ([n for n in names if "b64" in n] if tool in ("docenc", "base64_number", "b64filter", "remove_invalid_utf8_base64") else []) + (["tabs", "tsv-short", "tsv-wide"] if any(a_ in ("-f", "-k") for a_ in args) else [])
        for nm in dict.fromkeys(picks):
            data = cps[nm]
            st, out, err = pvlib.run_tool([ctx.bin(tool)] + args, data, env=pvlib.san_env(), timeout=40)
            ctx.count("tool-corpus", 1, [(tool, tuple(args), nm)])
            if diagnosed_ok(st, err):
                n_ok += 1
                continue
            kind = pvlib.san_kind(err) or st
            pvlib.report_violation(ctx, f"c20:{tool}:{' '.join(args)[-60:]}:{nm}", {
                "argv": [tool] + args, "stdin_hex": hx(data)[:4000] + ("..." if len(data) > 2000 else ""), "corpus_item": nm, "status": st, "kind": str(kind),
                "stderr": err.decode(errors="replace")[-1200:]},
                summary=f"{tool} {' '.join(args)} on corpus item '{nm}' ({len(data)} bytes): ended with {kind} instead of success or a diagnosed error")
            if len(ctx.violations) > 12:
                return
    ctx.cov["tool_runs_ended_acceptably"] = n_ok
    # regular files on stdin (FilePiece maps them window by window): one line longer than several windows, starting at a page-aligned and
    # at unaligned file offsets -- the window has to grow from a start that is not the line's start
    for off in (0, 1, 4095, 4096, 5000, 1 << 20, (1 << 20) + 77):
        data = (b"s" * (off - 1) + b"\n" if off else b"") + b"y" * (3 * (1 << 20) + 11) + b"\nz\n"
        pth = os.path.join(ctx.tmp, "longline.txt")
        open(pth, "wb").write(data)
        for tool, args, want in (("remove_invalid_utf8", [], data), ("dedupe", [], data), ("remove_long_lines", ["10"], b"".join(l_ + b"\n" for l_ in data.split(b"\n")[:-1] if len(l_) < 10))):
            st, out, err = pvlib.run_tool([ctx.bin(tool)] + args, stdin_file=pth, env=pvlib.san_env(), timeout=40)
            ctx.count("mapped-long-line", 1, [(tool, off)])
            if st != 0 or out != want:
                kind = pvlib.san_kind(err) or st
                pvlib.report_violation(ctx, f"c20-mapped:{tool}:{off}", {"argv": [tool] + args, "stdin_is_regular_file": True,
                    "stdin_python": f"(b's' * ({off} - 1) + b'\\n' if {off} else b'') + b'y' * (3 * (1 << 20) + 11) + b'\\nz\\n'", "status": st, "kind": str(kind),
                    "stderr": err.decode(errors="replace")[-600:]},
                    summary=f"{tool} {' '.join(args)} < regular file whose line of 3 MiB + 11 bytes starts at file offset {off}: ended with {kind}"
                            + ("" if st != 0 else f", {len(out)} bytes of output instead of {len(want)}"))
                break
        if ctx.violations:
            break
    # option values at the edge of their range, on an input that is valid for the tool
    warc = b"".join(b"WARC/1.0\r\nWARC-Type: response\r\nContent-Length: %d\r\n\r\n" % len(b_) + b_ + b"\r\n\r\n" for b_ in (b"ab", b"", b"x" * 5000))
    for tool, args, data in (("warc_parallel", ["-j", "0", "cat"], warc), ("warc_parallel", ["-j", "1", "cat"], warc), ("warc_parallel", ["-j", "64", "-z", "cat"], warc),
                             ("shard", ["--prefix", os.path.join(ctx.tmp, "e"), "--number", "1"], b"a\nb\n"), ("remove_long_lines", ["0"], b"\n\nx\n"),
                             ("foldfilter", ["-w", "1", "cat"], b"ab cd\n"), ("cache", ["-k", "1-", "cat"], b"a\na\n")):
        st, out, err = pvlib.run_tool([ctx.bin(tool)] + args, data, env=pvlib.san_env(), timeout=20)
        ctx.count("tool-edge-options", 1, [(tool, tuple(args))])
        if not diagnosed_ok(st, err):
            kind = pvlib.san_kind(err) or st
            pvlib.report_violation(ctx, f"c20-edge:{tool}:{' '.join(args)[-40:]}", {"argv": [tool] + args, "stdin_hex": hx(data)[:4000], "status": st, "kind": str(kind),
                                   "stderr": err.decode(errors="replace")[-600:]},
                                   summary=f"{tool} {' '.join(args)} on a valid input: " + ("does not terminate" if st == "HANG" else f"ended with {kind}") +
                                           " instead of success or a diagnosed error")
    # tools that take their inputs as files: apply_case <alignment> <source> <target> <model>, train_case <alignment> <source> <target>
    giza = (b"# Sentence pair (1) source length 2 target length 2 alignment score : 0.1\nhello World\nNULL ({ }) Hello ({ 1 }) World ({ 2 })\n")
    filesets = [
        ("apply_case", "valid", [b"0 ||| 0-0 1-1\n", b"Hello World\n", b"hello world\n", b"123\tHello 3\n"]),
        ("apply_case", "empty-target-line", [b"0 ||| 0-0\n1 ||| \n", b"hello\nworld\n", b"Hello\n\n", b""]),
        ("apply_case", "empty-source-and-target", [b"0 ||| \n", b"\n", b"\n", b""]),
        ("apply_case", "index-too-high", [b"0 ||| 5-5\n", b"a\n", b"b\n", b""]),
        ("apply_case", "fewer-target-lines", [b"0 ||| 0-0\n1 ||| 0-0\n", b"a\nb\n", b"c\n", b""]),
        ("apply_case", "bad-model", [b"0 ||| 0-0\n", b"a\n", b"b\n", b"notanumber x y\n"]),
        ("apply_case", "invalid-utf8", [b"0 ||| 0-0\n", b"a\n", b"\xff\xfe\n", b""]),
        ("train_case", "valid", [giza, b"Hello World\n", b"hello World\n"]),
        ("train_case", "empty-lines", [giza, b"\n", b"\n"]),
        ("train_case", "truncated-alignment", [giza[:40], b"Hello World\n", b"hello World\n"]),
        ("train_case", "invalid-utf8", [giza, b"Hello World\n", b"\xff World\n"]),
        ("truecase", "model-with-junk", [b"The (10/12 the\n\n\xff (1/1)\n"]),
        # one word with many casings (the table grows while the alternatives of one model line are being inserted), and many words
        ("truecase", "model-60-casings-of-one-word", [b"Word (10/99) " + b" ".join(b"alt%dWord (1/99)" % i for i in range(60)) + b"\nOther (3/3)\n"]),
        ("truecase", "model-300-words-4-casings", [b"".join(b"Word%d (10/20) word%d (5/20) WORD%d (3/20) wORD%d (2/20)\n" % (i, i, i, i) for i in range(300))]),
        ("train_case", "position-0-in-a-word-group", [b"# Sentence pair (1) source length 3 target length 3 alignment score : 0.1\nEr kommt heute\nNULL ({ }) er ({ 1 }) kommt ({ 0 }) heute ({ 3 })\n",
                                                      b"er kommt heute\n", b"Er kommt heute\n"]),
        ("train_case", "position-too-high", [b"# Sentence pair (1) source length 2 target length 2 alignment score : 0.1\nHello World\nNULL ({ }) Hello ({ 1 }) World ({ 7 })\n",
                                             b"Hello World\n", b"hello World\n"]),
        ("subtract_lines", "binary-subtrahend", [cps["binary"]]),
        ("commoncrawl_dedupe", "gz-subtrahend", [cps["gz-empty"]]),
    ]
    for tool, label, contents in filesets:
        paths = []
        for i, c in enumerate(contents):
            pth = os.path.join(ctx.tmp, f"fs_{tool}_{i}")
            open(pth, "wb").write(c)
            paths.append(pth)
        args = (["--model"] + paths) if tool == "truecase" else paths
        st, out, err = pvlib.run_tool([ctx.bin(tool)] + args, b"the cat\nTHE \xff dog\n\n", env=pvlib.san_env(), timeout=12)
        ctx.count("tool-corpus-files", 1, [(tool, label)])
        if not diagnosed_ok(st, err):
            kind = pvlib.san_kind(err) or st
            pvlib.report_violation(ctx, f"c20-files:{tool}:{label}", {
                "argv": [tool] + [f"<file {i}>" for i in range(len(paths))], "files_hex": [hx(c)[:2000] for c in contents], "case": label, "status": st, "kind": str(kind),
                "stderr": err.decode(errors="replace")[-900:]},
                summary=f"{tool} on file set '{label}': ended with {kind} instead of success or a diagnosed error")


def pool_part(ctx):
    """util::Pool (cache's answers, the strings of MutableVocab / substitute / idf) against PV.Pool: op sequences of Allocate and Continue
    with sizes at the edges of the current page (exactly the space left, one more, the size of the next page, zero); the harness fills
    every allocation with its own pattern and checks them all at the end, ASan watches every write and Continue's memcpy.  The model side
    carries the theorems pool_allocations_in_page / _disjoint / pool_continue_copies_in_bounds / pool_shift_count_small (Props/C20)."""
    rng = ctx.rng
    seqs = [["a5", "a0", "c3", "c-2", "a100", "c40", "a1"], ["a0", "a0"], [], ["a1", "a0", "a0", "a31", "a0", "a0"], ["a0", "a1", "a0"], ["a31", "a1", "a1"], ["a32", "a64", "a128", "a1"], ["a33", "a1"],
            ["a1", "c31", "c1", "c-33", "a32"], ["a10", "a10", "c12", "c1"], ["a10", "a10", "c13"], ["a7", "c-7", "a0", "a32", "a0", "c1"],
            ["a1000000", "a1", "c5000000", "a3"], ["a16"] * 40, ["a1"] * 300, ["a24", "c8", "c8", "c8", "c8", "c8", "c8", "c8", "c8", "c8"]]
    for it in range(150 if ctx.tier == "quick" else 3000):
        pages, cur, last = [], 0, None            # a shadow of the page list only to AIM the sizes at the edges; no verdict depends on it
        ops = []
        for j in range(rng.randrange(1, 40)):
            end = pages[-1] if pages else 0
            left = end - cur
            nxt = 32 << len(pages)
            if nxt > (1 << 20):            # keep the memory that is actually touched small; pool.pages (C04) opens the large pages
                nxt = 9
            if last is not None and pages and rng.random() < 0.35:
                d = rng.choice([1, left, left + 1, -last, -1 if last else 0, rng.randrange(-last, 50) if last else 3, nxt, nxt - last if nxt > last else 1])
                if last + d < 0:
                    d = -last
                ops.append(f"c{d}")
                if cur + d > end:
                    pages.append(max(32 << len(pages), last + d)); cur = last + d
                else:
                    cur += d
                last += d
            else:
                n = rng.choice([0, 1, left, left + 1, max(left - 1, 0), nxt, nxt + 1, nxt - 1, rng.randrange(0, 70), rng.randrange(0, 5000)])
                ops.append(f"a{n}")
                if cur + n > end:
                    pages.append(max(32 << len(pages), n)); cur = n
                else:
                    cur += n
                last = n
        seqs.append(ops)
    lines = ["pool.run " + " ".join(o) for o in seqs]
    lines = list(dict.fromkeys(lines))
    a = pvlib.run_lines(ctx.impl(), lines, env=pvlib.san_env(), timeout=300)
    b = pvlib.run_lines(pvlib.PVDRIVER, lines)
    ctx.count("pool.run", len(lines), lines)
    ctx.cov["pool_ops"] = sum(len(l.split()) - 1 for l in lines)
    ctx.cov["pool_moving_continues"] = sum(x.count("m ") for x in b)
    ctx.cov["pool_max_pages"] = max((x.split("pages=")[1].count(",") + 1 for x in b if "pages=" in x and "pages=-" not in x), default=0)
    for o, x, y in zip(lines, a, b):
        if x == y and x.startswith("ok ") and x.endswith(" intact"):
            continue
        if x.startswith("ok ") and x.endswith(" intact") and y.startswith("ok "):
            # both ran to the end and differ only in WHERE things were put: the allocator was rewritten; the theorems are about another policy
            pvlib.report_violation(ctx, "corr:pool:" + o[:60], {"ops": [o], "impl": x[:600], "model": y[:600], "correspondence": "PV.Pool vs util::Pool (addresses, page sizes)"},
                                   no_input=True, summary=f"util::Pool places allocations differently from PV.Pool on `{o[:80]}`: impl {x[:100]} model {y[:100]}")
        else:
            pvlib.report_violation(ctx, "pool:" + o[:60], {"ops": [o], "impl": x[:600], "model": y[:600]},
                                   summary=f"util::Pool on `{o[:100]}`: {x[-160:]} (model: {y[:80]})")
        return


def formatter_part(ctx):
    impl = os.path.join(ctx.bdir, "harness", "implfmt")
    if not os.path.exists(impl):
        return
    rng = ctx.rng
    ops = []
    for t, lim in (("u16", 1 << 16), ("u32", 1 << 32), ("u64", 1 << 64)):
        vals = {0, 1, 9, 10, 99, 100, 999, 1000, 9999, 10000, 99999999, 100000000, 10 ** 15, 10 ** 16 - 1, 10 ** 16, lim - 1, lim // 2}
        vals |= {10 ** k for k in range(20)} | {10 ** k - 1 for k in range(1, 21)}
        vals |= {rng.randrange(lim) for _ in range(300)}
        for v in sorted(x for x in vals if 0 <= x < lim):
            ops.append(f"fmt.{t} {v}")
    for t, bits in (("i16", 16), ("i32", 32), ("i64", 64)):
        lo, hi = -(1 << (bits - 1)), (1 << (bits - 1)) - 1
        vals = {0, 1, -1, lo, hi, lo + 1, -10 ** 8, -10 ** 16, -99999999, 10 ** 8} | {rng.randrange(lo, hi) for _ in range(300)}
        for v in sorted(x for x in vals if lo <= x <= hi):
            ops.append(f"fmt.{t} {v}")
    import struct
    dbl = [0.0, -0.0, 1.0, -1.5, 1e21, 1e20, -1.2345678901234567e20, 1.2345678901234567e-6, -1.2345678901234567e-6, -1.2345678901234567e-7,
           -1.2345678901234567e-100, 5e-324, -1.7976931348623157e308, float("inf"), float("-inf"), float("nan"), 0.1, 123456789012345680000.0, 1e-6, 9.999999999999999e-7]
    dbl += [struct.unpack("<d", struct.pack("<Q", rng.getrandbits(64)))[0] for _ in range(3000)]
    for v in dbl:
        ops.append("fmt.double " + struct.pack("<d", v).hex())
    flt = [0.0, 1.0, -1.23456789e20, 1.23456789e20, -1.23456789e-6, 1e-45, -3.4028235e38, float("inf"), float("nan")]
    flt += [struct.unpack("<f", struct.pack("<I", rng.getrandbits(32)))[0] for _ in range(3000)]
    for v in flt:
        ops.append("fmt.float " + struct.pack("<f", v).hex())
    for off in range(0, 40):
        ops.append(f"fmt.stream {off} " + struct.pack("<d", -1.2345678901234567e-6).hex())
    ops = list(dict.fromkeys(ops))
    a = pvlib.run_lines(impl, ops, env=pvlib.san_env())
    # model: give the digits/decimal point double-conversion produced (reported by the harness) to the Lean model
    mops = []
    for o, x in zip(ops, a):
        w = x.split()
        if o.startswith(("fmt.double", "fmt.float")) and x.startswith("ok "):
            mops.append(f"{o.split()[0]} {w[4]} {w[5]} {w[6]} {w[7]}")      # kind neg ndigits decimal_point
        else:
            mops.append(o)
    b = pvlib.run_lines(pvlib.PVDRIVER, mops)
    ctx.count("formatters", len(ops), ops)
    ctx.cov["formatter_max_touched"] = {}
    for o, x, y in zip(ops, a, b):
        t = o.split()[0]
        w = x.split()
        if not x.startswith("ok "):
            pvlib.report_violation(ctx, "fmt:" + o, {"ops": [o], "impl": x}, summary=f"{o}: {x} (sanitizer/crash in the formatter)")
            return
        touched, kbytes = int(w[2]), int(w[3])
        ctx.cov["formatter_max_touched"][t] = max(ctx.cov["formatter_max_touched"].get(t, 0), touched)
        if touched > kbytes:
            pvlib.report_violation(ctx, "fmt:" + o, {"ops": [o], "impl": x, "text": bytes.fromhex(w[1]).decode("latin-1") if w[1] != "-" else ""},
                                   summary=f"{o}: ToString wrote {touched} bytes ({bytes.fromhex(w[1]).decode('latin-1') if w[1] != '-' else ''!r} + terminator) "
                                           f"but only ToStringBuf::kBytes = {kbytes} were reserved")
            return
        if t != "fmt.stream":
            my = y.split()
            if len(my) < 3 or my[0] != "ok" or (my[1], my[2]) != (str(len(bytes.fromhex(w[1])) if w[1] != "-" else 0), w[2]):
                pvlib.report_violation(ctx, "corr:fmt", {"ops": [o], "impl": x, "model": y, "correspondence": "PV.Format (length, bytes touched) vs util::ToString"},
                                       no_input=True, summary=f"{o}: impl length/touched {len(bytes.fromhex(w[1])) if w[1] != '-' else 0}/{w[2]} model {y}")
                return


def replay(ctx, rp):
    if "ops" in rp:
        impl = os.path.join(ctx.bdir, "harness", "implfmt") if rp["ops"][0].startswith("fmt.") else ctx.impl()
        for o, x in zip(rp["ops"], pvlib.run_lines(impl, rp["ops"], env=pvlib.san_env())):
            print(o, "->", x)
    if "files_hex" in rp:
        paths = []
        for i, h in enumerate(rp["files_hex"]):
            pth = os.path.join(ctx.tmp, f"rp_{i}")
            open(pth, "wb").write(pvlib.unhx(h))
            paths.append(pth)
        tool = rp["argv"][0]
        st, out, err = pvlib.run_tool([ctx.bin(tool)] + ((["--model"] + paths) if tool == "truecase" else paths), b"the cat\nTHE \xff dog\n\n", env=pvlib.san_env(), timeout=12)
        print("status", st, err.decode(errors="replace")[-1500:])
        return
    if rp.get("stdin_is_regular_file"):
        pth = os.path.join(ctx.tmp, "rp_longline.txt")
        open(pth, "wb").write(eval(rp["stdin_python"]))
        st, out, err = pvlib.run_tool([ctx.bin(rp["argv"][0])] + rp["argv"][1:], stdin_file=pth, env=pvlib.san_env(), timeout=40)
        print("status", st, "output bytes", len(out), err.decode(errors="replace")[-600:])
        return
    if "argv" in rp:
        print("(stdin truncated in the replay file for large corpus items; corpus item:", rp.get("corpus_item"), ")")
        pvlib.generic_replay(ctx, {"argv": rp["argv"], "stdin_hex": rp["stdin_hex"].rstrip(".")})
