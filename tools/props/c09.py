"""C09 — base64 codec and docenc round-trip exactly and reject foreign bytes.
Tie: in-process base64_encode/base64_decode and the real bin/docenc against the Lean model;
oracle: PV.Spec.Base64 (rfc4648, judgeDecode) and the round-trip statement itself."""
import base64, itertools, os
import pvlib
from pvlib import hx, unhx

LEVEL = "proof"
RULE = ("encode: all byte strings of length 0-2, seeded random strings to 4 KiB (64 KiB thorough); decode: for "
        "canonical encodings of strings of length 0-8 every one of the 256 byte values substituted at and inserted "
        "before every position, padded and unpadded, plus '='-only and random texts; docenc: line sequences over "
        "{a, ab, a\\r, \\r, empty} up to 6 lines, both separators, index lists, and the pipeline docenc -d | docenc "
        "on encoded valid documents; non-trivial = distinct op line")
ASSUMPTIONS = ["model transcribes preprocess/base64.cc and docenc_main.cc by hand; INV_TABLE/TABLE and the strip_cr "
               "argument are regenerated from the source",
               "int overflow in the accumulators behaves as two's-complement wrap-around (what gcc emits)",
               "docenc reads records through the C02 reader"]

ALPH = b"ABCDEFGHIJKLMNOPQRSTUVWXYZabcdefghijklmnopqrstuvwxyz0123456789+/"


def enc_cases(ctx):
    rng = ctx.rng
    for n in range(3):
        for t in itertools.product(range(256), repeat=n):
            yield bytes(t)
    top = 4096 if ctx.tier == "quick" else 65536
    for _ in range(1500 if ctx.tier == "quick" else 6000):
        n = rng.choice([3, 4, 5, 6, 7, 8, 9, 31, 32, 33, rng.randrange(10, 300), rng.randrange(0, top)])
        mode = rng.random()
        if mode < 0.2:
            yield bytes([rng.choice([0, 0xFF, 0x80, 0x7F])]) * n
        else:
            yield bytes(rng.randrange(256) for _ in range(n))


def dec_cases(ctx):
    rng = ctx.rng
    bases = [b"", b"A", b"AB", b"ABC", b"\xff\xfe\xfd\xfc", b"hello", b"\x00\x00\x00\x00\x00\x00", b"1234567",
             b"\xde\xad\xbe\xef\x01\x02\x03\x04"]
    for x in bases:
        e = base64.b64encode(x)
        for t in (e, e.rstrip(b"=")):
            yield t
            for pos in range(len(t) + 1):
                for v in range(256):
                    yield t[:pos] + bytes([v]) + t[pos:]
                    if pos < len(t):
                        yield t[:pos] + bytes([v]) + t[pos + 1:]
    for k in range(0, 9):
        yield b"=" * k
        yield b"QQ" + b"=" * k
        yield b"QUI" + b"=" * k
    for _ in range(3000 if ctx.tier == "quick" else 30000):
        n = rng.randrange(0, 40)
        yield bytes(rng.choice(ALPH) if rng.random() < 0.93 else rng.randrange(256) for _ in range(n)) + b"=" * rng.choice([0, 0, 1, 2, 3])


def judge_dec(ctx, ops, impl_out):
    """property verdict on the implementation's decode answers (Lean oracle)."""
    j = []
    for o, r in zip(ops, impl_out):
        h = o.split()[1]
        if r.startswith("ok "):
            j.append(f"b64.spec.judgedec {h} {r[3:]}")
        elif r.startswith("ERR"):
            j.append(f"b64.spec.judgedec {h} ERR")
        else:
            j.append(f"b64.spec.judgedec {h} ERR")   # crash: judged separately below
    v = pvlib.run_lines(pvlib.PVDRIVER, j)
    return v


def docenc_tool(ctx, args, data):
    return pvlib.run_tool([ctx.bin("docenc")] + args, data, env=pvlib.san_env(), timeout=30)


def run(ctx):
    huge = pvlib.HugeB64(ctx).start()
    try:
        run_small(ctx)
    finally:
        huge.finish("b64-huge")


def run_small(ctx):
    # ---- encode
    encs = list(dict.fromkeys(enc_cases(ctx)))
    ops = ["b64.enc " + hx(x) for x in encs]
    bad, a, b = pvlib.diff_streams(ctx, "b64.enc", ops)
    spec = pvlib.run_lines(pvlib.PVDRIVER, ["b64.spec.enc " + hx(x) for x in encs])
    viol = [(o, x, s) for o, x, s in zip(ops, a, spec) if x != s]
    if viol:
        viol.sort(key=lambda v: len(v[0]))
        o, x, s = viol[0]
        pvlib.report_violation(ctx, "b64enc:" + o.split()[1][:40], {"ops": [o], "impl": x, "spec": s},
                               summary=f"{o[:80]} -> {x[:80]} but RFC 4648 gives {s[:80]}")
    elif bad:
        i, o, x, y = bad[0]
        pvlib.report_violation(ctx, "corr:b64.enc", {"ops": [o], "impl": x, "model": y,
                               "correspondence": "PV.Base64.encode vs base64_encode"}, no_input=True,
                               summary=f"model/impl correspondence broken at {o[:80]}")
    # round trip through the implementation itself (padded and unpadded)
    rt = []
    for x, e in zip(encs, a):
        if e.startswith("ok "):
            rt.append("b64.dec " + e[3:])
            rt.append("b64.dec " + hx(unhx(e[3:]).rstrip(b"=")))
    rto = pvlib.run_lines(ctx.impl(), rt, env=pvlib.san_env())
    ctx.count("b64.roundtrip", len(rt), rt)
    k = 0
    for x, e in zip(encs, a):
        if e.startswith("ok "):
            for j in (0, 1):
                if rto[k + j] != "ok " + hx(x):
                    pvlib.report_violation(ctx, "b64rt:" + hx(x)[:40], {"ops": ["b64.enc " + hx(x), rt[k + j]],
                                           "impl": rto[k + j], "want": "ok " + hx(x)},
                                           summary=f"decode(encode({hx(x)[:60]})) = {rto[k + j][:60]}")
            k += 2
    # ---- decode
    decs = list(dict.fromkeys(dec_cases(ctx)))
    ops = ["b64.dec " + hx(x) for x in decs]
    bad, a, b = pvlib.diff_streams(ctx, "b64.dec", ops)
    ctx.cov["dec_ok"] = sum(1 for x in a if x.startswith("ok"))
    ctx.cov["dec_err"] = sum(1 for x in a if x.startswith("ERR"))
    verdict = judge_dec(ctx, ops, a)
    viol = [(o, x) for o, x, v in zip(ops, a, verdict) if v != "pass" or not (x.startswith("ok") or x.startswith("ERR"))]
    if viol:
        viol.sort(key=lambda v: len(v[0]))
        o, x = viol[0]
        pvlib.report_violation(ctx, "b64dec:" + o.split()[1][:40], {"ops": [o], "impl": x, "more": [v[0] for v in viol[1:10]],
                               "oracle": "PV.Spec.Base64.judgeDecode"},
                               summary=f"{o} -> {x}: foreign byte before '=' accepted, or canonical text not decoded to its bytes")
    elif bad:
        i, o, x, y = bad[0]
        pvlib.report_violation(ctx, "corr:b64.dec", {"ops": [b_[1] for b_ in bad[:10]], "impl": x, "model": y,
                               "correspondence": "PV.Base64.decode vs base64_decode"}, no_input=True,
                               summary=f"model/impl correspondence broken at {o[:80]}: impl {x[:40]} model {y[:40]}")
    # ---- sequences decoded into one reused buffer (what the tools do): document k's result is its own decoding,
    # whatever was decoded before it -- in particular the empty encoding after a non-empty document
    import base64 as _b64
    docs = [b"", b"", b"a", b"ab", b"abc", b"hello\n", b"x" * 100, b"\xff\x00"]
    encs = [_b64.b64encode(d) for d in docs] + [b"=", b"==", b"YQ", b"Y Q==", b"!!!!"]
    seqs = [list(t) for n in (2, 3) for t in itertools.product(encs[:6] + [b"="], repeat=n)]
    seqs += [[ctx.rng.choice(encs) for _ in range(ctx.rng.randrange(2, 8))] for _ in range(300 if ctx.tier == "quick" else 5000)]
    sops = list(dict.fromkeys("b64.decseq " + " ".join(hx(e) for e in sq) for sq in seqs))
    sbad, sa, sb = pvlib.diff_streams(ctx, "b64.decseq", sops)
    if sbad:
        i, o, x, y = sorted(sbad, key=lambda q: len(q[1]))[0]
        xs, ys = x.split(" ; "), y.split(" ; ")
        k = next((j for j, (p_, q_) in enumerate(zip(xs, ys)) if p_ != q_), 0)
        sq = [unhx(h) for h in o.split()[1:]]
        # is document k's result wrong on its own, or only after the earlier ones?
        alone = pvlib.run_lines(ctx.impl(), ["b64.dec " + hx(sq[k])], env=pvlib.san_env())[0] if k < len(sq) else "?"
        if alone == (ys[k] if k < len(ys) else None) or (xs[k].startswith("ok ") and ys[k].startswith("ok ")):
            pvlib.report_violation(ctx, "b64seq:" + o[:100], {"ops": [o], "impl": x, "each_document_alone": y, "document_index": k},
                                   summary=f"decoding {sq[:k + 1]!r} one after the other into one buffer: document {k} gives {xs[k][:60]}, "
                                           f"decoded on its own it is {ys[k][:60]}")
        else:
            pvlib.report_violation(ctx, "corr:b64.decseq", {"ops": [o], "impl": x, "model": y, "correspondence": "PV.Base64.decode vs base64_decode"},
                                   no_input=True, summary=f"model/impl correspondence broken at {o[:80]}: impl {xs[k][:40]} model {ys[k][:40]}")
    # ---- base64_number: every non-empty line of document i, tabs as spaces, followed by TAB and i (model PV.Tools2)
    dpool = [b"", b"a", b"a\n", b"\n", b"\n\na", b"a\tb\n", b"x\n\ny\n", b"no newline", b"\t", b"l1\nl2\nl3\n"]
    for _ in range(60 if ctx.tier == "quick" else 600):
        dd = [ctx.rng.choice(dpool) for _ in range(ctx.rng.randrange(0, 9))]
        data = b"".join(_b64.b64encode(d) + b"\n" for d in dd)
        if dd and ctx.rng.random() < 0.2:
            data = data[:-1]
        st, out, err = pvlib.run_tool([ctx.bin("base64_number")], data, env=pvlib.san_env(), timeout=30)
        ctx.count("base64_number", 1, [data])
        want = b"".join(l.replace(b"\t", b" ") + b"\t%d\n" % i for i, d in enumerate(dd) for l in d.split(b"\n") if l)
        m = pvlib.run_lines(pvlib.PVDRIVER, ["tools.b64number " + hx(data)])[0]
        if st != 0 or out != want:
            pvlib.report_violation(ctx, "b64number:" + hx(data)[:60], {"argv": ["base64_number"], "stdin_hex": hx(data), "documents": [hx(d) for d in dd], "status": st,
                                   "got": out.decode(errors="replace")[:400], "want": want.decode(errors="replace")[:400]},
                                   summary=f"base64_number on documents {dd!r}: got {out[:80]!r}, every non-empty line with its document's number is {want[:80]!r} (status {st})")
            break
        if m != "ok " + hx(out):
            pvlib.report_violation(ctx, "corr:tools.b64number", {"ops": ["tools.b64number " + hx(data)], "impl": hx(out), "model": m,
                                   "correspondence": "PV.Tools2.base64Number vs bin/base64_number"}, no_input=True, summary="base64_number model/impl differ")
            break
    # ---- docenc tool vs model, and the round trip
    run_docenc(ctx)


LINES = [b"a", b"ab", b"a\r", b"\r", b""]


def run_docenc(ctx):
    rng = ctx.rng
    texts = []
    maxn = 4 if ctx.tier == "quick" else 6
    for n in range(0, maxn + 1):
        for t in itertools.product(LINES, repeat=n):
            s = b"".join(l + b"\n" for l in t)
            texts.append(s)
            if n and t[-1] != b"":
                texts.append(s[:-1])          # missing final newline
    texts = list(dict.fromkeys(texts))
    if ctx.tier == "quick":
        rng.shuffle(texts)
        texts = texts[:500] + [b"", b"\n", b"\r\n", b"a\r\n", b"a\r\n\r\nb\n"]
    ops, runs = [], []
    for t in texts:
        for nul in (0, 1):
            data = t if not nul else t.replace(b"\n", b"\0")
            ind = rng.choice(["-", "-", "1", "2", "1,2", "2,3", "1,3", "2,1", "2,2", "1,2,2,3", "3,1,2", "1,1,2", "2,2,3", "1,2,2,3,4"])
            args = (["-0"] if nul else []) + ([] if ind == "-" else ["1-2", "2-3"] if ind == "1,2,2,3" else [i for i in ind.split(",")])
            if ind == "2,3" and rng.random() < 0.5:
                args = (["-0"] if nul else []) + ["2-3"]
            ops.append(f"docenc.enc {nul} {ind} {hx(data)}")
            runs.append((args, data))
    model = pvlib.run_lines(pvlib.PVDRIVER, ops)
    ctx.count("docenc.enc", len(ops), ops)
    corr_bad = None
    for (args, data), o, m in zip(runs, ops, model):
        st, out, err = docenc_tool(ctx, args, data)
        got = "ok " + hx(out) if st == 0 else f"EXIT:{st}"
        if got != m and corr_bad is None:
            corr_bad = (o, args, data, got, m)
    # round trip: docenc | docenc -d must reproduce valid documents (the property), judged on the tool alone
    docs_nl = [b"", b"a\n", b"a\nb\n", b"a\r\n", b"\r\n", b"a\r\nb\n", b"ab\na\r\n", b"\ra\n"]
    docs_nul = [b"a", b"a\n", b"a\r", b"\r", b"a\r\nb", b"\n\n", b"a\n\nb", b"abc\r"]
    # the empty document (base64: the empty line) is a document like any other when DEcoding and for index selection
    docs_dec = docs_nul + [b"", b""]
    seqs = []
    for n in range(1, 4):
        for t in itertools.product(range(len(docs_nl)), repeat=n):
            seqs.append(t)
    rng.shuffle(seqs)
    seqs = seqs[:120 if ctx.tier == "quick" else 584]
    for nul, docs in ((0, docs_nl), (1, docs_nul)):
        for t in seqs:
            ds = [docs[i] for i in t]
            b64 = b"".join(base64.b64encode(d) + b"\n" for d in ds)
            fl = ["-0"] if nul else []
            st1, text, e1 = docenc_tool(ctx, ["-d", "-q"] + fl, b64)
            st2, back, e2 = docenc_tool(ctx, fl, text)
            ctx.count("docenc.roundtrip", 1, [(nul, t)])
            if st1 != 0 or st2 != 0 or back != b64:
                pvlib.report_violation(ctx, f"docenc-rt:{nul}:" + hx(b64)[:60], {
                    "argv": ["docenc"] + fl, "pipeline": "docenc -d -q %s | docenc %s" % (" ".join(fl), " ".join(fl)),
                    "stdin_hex": hx(b64), "documents": [hx(d) for d in ds], "decoded_text": hx(text),
                    "reencoded": hx(back), "status": [st1, st2]},
                    summary=f"docenc -d | docenc does not reproduce documents {[d for d in ds]!r}: got {back!r} want {b64!r}")
                break
    if corr_bad and not any(v["key"].startswith("docenc-rt") for v in ctx.violations):
        o, args, data, got, m = corr_bad
        pvlib.report_violation(ctx, "corr:docenc.enc", {"ops": [o], "argv": ["docenc"] + args, "stdin_hex": hx(data),
                               "impl": got, "model": m, "correspondence": "PV.Docenc.encode vs bin/docenc"},
                               no_input=True, summary=f"docenc {args} on {data!r}: tool {got[:60]} model {m[:60]}")
    # decode side with index selection
    dops, druns = [], []
    for _ in range(150 if ctx.tier == "quick" else 1500):
        n = rng.randrange(0, 6)
        ds = [rng.choice(docs_nl + docs_dec) for _ in range(n)]
        nul = rng.randrange(2)
        if not nul and ds and rng.random() < 0.5:
            # with the default separator a document may contain NUL bytes (only -0 reserves them): they are data like any other byte
            ds[rng.randrange(len(ds))] = rng.choice([b"abc\x00def\n", b"\x00lead\n", b"x\x00", b"\x00", b"u\x00t\x00f\x001\x006\x00\n", b"two\x00\x00nuls\nand a line\n"])
        b64 = b"".join(base64.b64encode(d) + b"\n" for d in ds)
        # index arguments as a user may type them: any order, repeated, overlapping ranges (M-N expands to M..N)
        ind = rng.choice(["-", "1", "2", "3", "1,2", "2,4", "1,3,4", "5", "2,1", "3,1", "2,2", "1,2,3,2,3,4", "2,3,3", "4,2,3",
                          "1,2,3,3,4,5", "2,2,3", "1,1,2,4", "1,2,2,4,5", "3,3,4"])      # ascending, with a repeat that is followed by more
        args = ["-d", "-q"] + (["-0"] if nul else []) + ([] if ind == "-" else ["1-3", "2-4"] if ind == "1,2,3,2,3,4" else ["2-3", "3"] if ind == "2,3,3" else
                                                        ["1-3", "3-5"] if ind == "1,2,3,3,4,5" else ["3", "3-4"] if ind == "3,3,4" else ind.split(","))
        dops.append(f"docenc.dec {nul} {ind} {hx(b64)}")
        druns.append((args, b64, ds, ind, nul))
    model = pvlib.run_lines(pvlib.PVDRIVER, dops)
    ctx.count("docenc.dec", len(dops), dops)
    for (args, b64, ds, ind, nul), o, m in zip(druns, dops, model):
        st, out, err = docenc_tool(ctx, args, b64)
        got = "ok " + hx(out) if st == 0 else "ERR:abort"
        sep = b"\0" if nul else b"\n"
        idx = range(1, len(ds) + 1) if ind == "-" else sorted(set(int(i) for i in ind.split(",")))
        want = b"".join(ds[i - 1] + sep for i in idx if 1 <= i <= len(ds))
        if st != 0 or out != want:
            pvlib.report_violation(ctx, "docenc-sel:" + o[:80], {"argv": ["docenc"] + args, "stdin_hex": hx(b64),
                                   "impl": got, "want": hx(want)},
                                   summary=f"docenc {args}: selected documents differ from the listed indices")
            break
        if got != m:
            pvlib.report_violation(ctx, "corr:docenc.dec", {"ops": [o], "impl": got, "model": m,
                                   "correspondence": "PV.Docenc.decode vs bin/docenc -d"}, no_input=True,
                                   summary=f"docenc -d model/impl differ on {o[:80]}")
            break
    # input given as FILE arguments (not stdin), with names that begin like an index ("2docs.b64", "2-4x.b64", "1st.txt"): the file is
    # opened and the index arguments select from it exactly as from stdin
    import shutil
    wd = os.path.join(ctx.tmp, "c09files")
    shutil.rmtree(wd, ignore_errors=True)
    os.makedirs(wd)
    fdocs = [b"alpha\n", b"bravo\n", b"charlie\n", b"delta\n", b"echo\n"]
    fb64 = b"".join(base64.b64encode(d) + b"\n" for d in fdocs)
    for fname in ("plain.b64", "2docs.b64", "2-4x.b64", "1st.txt", "7"):
        open(os.path.join(wd, fname), "wb").write(fb64)
        for idx in ([], ["1"], ["4-5"], ["3", "1"]):
            if fname == "7" and not idx:
                continue
            st, out, err = pvlib.run_tool([ctx.bin("docenc"), "-d", "-q"] + idx + ([fname] if fname != "7" else ["./7"]), b"", env=pvlib.san_env(), timeout=30, cwd=wd)
            ctx.count("docenc.file-args", 1, [(fname, tuple(idx))])
            sel = sorted(set(i for a_ in idx for i in (range(int(a_.split("-")[0]), int(a_.split("-")[1]) + 1) if "-" in a_ else [int(a_)]))) or range(1, 6)
            want = b"".join(fdocs[i - 1] + b"\n" for i in sel)
            if st != 0 or out != want:
                pvlib.report_violation(ctx, f"docenc-file:{fname}:{','.join(idx)}", {"argv": ["docenc", "-d", "-q"] + idx + [fname], "file_hex": hx(fb64), "status": st,
                                       "got": out.decode(errors="replace"), "want": want.decode()},
                                       summary=f"docenc -d {' '.join(idx)} {fname}: printed {out[:60]!r}, the selected documents of the file are {want[:60]!r} (status {st})")
                break
    # malformed index arguments are rejected, not reinterpreted
    for bad_arg, data in (("3-1", b"YQ==\n"),):
        st, out, err = docenc_tool(ctx, ["-d", bad_arg], data)
        ctx.count("docenc.badindex", 1, [bad_arg])
        if st == 0:
            pvlib.report_violation(ctx, "docenc-badindex:" + bad_arg, {"argv": ["docenc", "-d", bad_arg], "stdin_hex": hx(data),
                                   "status": st}, summary=f"docenc accepts the malformed index argument {bad_arg}")


def search(ctx, broken):
    """a proof broke: the regular domain already contains every single foreign byte at every position and CR
    documents; widen the random part."""
    rng = ctx.rng
    decs = []
    for _ in range(100000):
        n = rng.randrange(1, 24)
        decs.append(bytes(rng.choice(ALPH) if rng.random() < 0.8 else rng.randrange(256) for _ in range(n)))
    ops = ["b64.dec " + hx(x) for x in dict.fromkeys(decs)]
    a = pvlib.run_lines(ctx.impl(), ops, env=pvlib.san_env())
    ctx.count("b64.dec.search", len(ops), ops)
    verdict = judge_dec(ctx, ops, a)
    viol = [(o, x) for o, x, v in zip(ops, a, verdict) if v != "pass"]
    if viol:
        viol.sort(key=lambda v: len(v[0]))
        o, x = viol[0]
        pvlib.report_violation(ctx, "b64dec:" + o.split()[1][:40], {"ops": [o], "impl": x},
                               summary=f"{o} -> {x}: violates the decode contract")


def replay(ctx, rp):
    if "ops" in rp:
        ops = rp["ops"]
        a = pvlib.run_lines(ctx.impl(), ops, env=pvlib.san_env()) if not ops[0].startswith("docenc") else ["(tool)"] * len(ops)
        b = pvlib.run_lines(pvlib.PVDRIVER, ops)
        for o, x, y in zip(ops, a, b):
            print(f"{o}\n  impl : {x}\n  model: {y}")
    if "argv" in rp:
        st, out, err = docenc_tool(ctx, rp["argv"][1:], unhx(rp["stdin_hex"]))
        print("status", st, "stdout", out[:2000])
