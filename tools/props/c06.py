"""C06 — shard partitions the input by key, stably, into always-valid files."""
import bz2, gzip, os, shutil, subprocess, zlib
import pvlib
from pvlib import hx, unhx

LEVEL = "proof"
RULE = ("real bin/shard vs the Lean model: shard counts 1..12 and 100, both naming modes (--prefix/--number, explicit names), key "
        "specs {none, 1, 2, 1-2} x delimiters tab/space, compression none/gzip/bzip2, empty input and inputs that leave shards "
        "empty, LF and CRLF line ends and a last line without terminator (input lines = the C02 records); every output file is expanded with an independent decoder (Python gzip/bz2 and the gzip/bzip2 command line tools) "
        "and compared with the model's file; oracle = partition / order / co-location / purity predicates evaluated on the tool's "
        "files; dedupe per shard vs dedupe of the whole; non-trivial = distinct (args, input)")
ASSUMPTIONS = ["writer threads and compression are covered by C16 / C15; here their output is checked with independent decoders",
               "64-bit hash collisions excepted"]


def decode_file(path, comp):
    raw = open(path, "rb").read()
    if comp == "none":
        return raw, None
    try:
        if comp == "gzip":
            data = gzip.decompress(raw)
            tool = subprocess.run(["gzip", "-dc"], input=raw, stdout=subprocess.PIPE, stderr=subprocess.PIPE)
        else:
            data = bz2.decompress(raw)
            tool = subprocess.run(["bzip2", "-dc"], input=raw, stdout=subprocess.PIPE, stderr=subprocess.PIPE)
        if tool.returncode != 0 or tool.stdout != data:
            return data, f"standard {comp} tool: rc={tool.returncode} {tool.stderr.decode(errors='replace')[:100]}"
        return data, None
    except Exception as e:  # invalid stream
        return None, f"{comp} stream invalid ({len(raw)} bytes): {e!r}"


def records(data):
    """the C02 records of an input: split at LF, a final unterminated line counts, one trailing CR is stripped"""
    parts = data.split(b"\n")
    if parts and parts[-1] == b"":
        parts.pop()
    return [p[:-1] if p.endswith(b"\r") else p for p in parts]


def run_shard(ctx, n, mode, spec, d, comp, data, key):
    wd = os.path.join(ctx.tmp, "shard")
    shutil.rmtree(wd, ignore_errors=True)
    os.makedirs(wd)
    argv = [ctx.bin("shard")]
    if spec:
        argv += ["-f", spec]
    if d != "\t":
        argv += ["-d", d]
    if comp != "none":
        argv += ["-c", comp]
    if mode == "prefix":
        argv += ["--prefix", os.path.join(wd, "p"), "--number", str(n)]
        names = pvlib.run_lines(pvlib.PVDRIVER, [f"tools.shardnames {os.path.join(wd, 'p')} {n}"])[0].split()[1:]
    else:
        names = [os.path.join(wd, f"out{i}") for i in range(n)]
        argv += names
    st, out, err = pvlib.run_tool(argv, data, env=pvlib.san_env(), timeout=120)
    return argv, names, st, err


def run(ctx):
    rng = ctx.rng
    cases = []
    pool_lines = [b"a\t", b"a\tx\t", b"b\t", b"a ", b"a x ", b"k1\t", b"\t", b"a", b"b", b"c", b"a\tx", b"a\ty", b"b\tx", b"", b"a b", b"a\tx\tc", b"a\ty\tc", b"a\tz\tc\td", b"a x c", b"a y c", b"k1", b"k2", b"k3", b"k4", b"k5", b"\xff\x00", b"z" * 9000]
    counts = list(range(1, 13)) + [100]
    for n in counts:
        for comp in ("none", "gzip", "bzip2"):
            if ctx.tier == "quick" and n > 4 and rng.random() < 0.6:
                continue
            k = rng.choice([0, 1, 2, 5, 40, 300])
            lines = [rng.choice(pool_lines) if rng.random() < 0.7 else b"r%d" % rng.randrange(50) for _ in range(k)]
            # line ends: LF, CRLF on some or all lines, and a last line without terminator
            crlf = rng.choice([0.0, 0.0, 0.3, 1.0])
            data = b"".join(l + (b"\r\n" if rng.random() < crlf else b"\n") for l in lines)
            if lines and rng.random() < 0.35:
                data = data[:-2] if data.endswith(b"\r\n") else data[:-1]
            cases.append((n, rng.choice(["prefix", "names"]), rng.choice([None, None, "1", "2", "1-2", "1,3-", "-1,3-", "2-", "1,3"]), rng.choice(["\t", " "]), comp, data))
    # explicit empty-input and empty-shard cases for each compression
    for comp in ("none", "gzip", "bzip2"):
        cases.append((2, "names", None, "\t", comp, b""))
        cases.append((3, "prefix", None, "\t", comp, b"a\n"))
        cases.append((1, "prefix", None, "\t", comp, b"a\nb\n"))
        cases.append((1, "prefix", "1", "\t", comp, b""))
        cases.append((2, "prefix", None, "\t", comp, b"a\nb\nc\n"))
        cases.append((10, "prefix", None, "\t", comp, b"a\nb\nc\n"))
        cases.append((11, "prefix", "1", "\t", comp, b"a\tx\na\ty\nb\n"))
        cases.append((2, "names", None, "\t", comp, b"first\nsecond\nlast line without newline"))
        cases.append((1, "names", None, "\t", comp, b"only"))
        cases.append((3, "prefix", "1", "\t", comp, b"a\tx\r\nb\ty\r\na\tz\r\n"))
    for (n, mode, spec, d, comp, data) in cases:
        key = (n, mode, spec, d, comp, data)
        argv, names, st, err = run_shard(ctx, n, mode, spec, d, comp, data, key)
        ctx.count("shard", 1, [key])
        op = f"tools.shard {n} {hx((spec or '1-').encode())} {hx(d.encode())} {hx(data)}"
        m = pvlib.run_lines(pvlib.PVDRIVER, [op])[0]
        rp = {"argv": ["shard"] + argv[1:], "stdin_hex": hx(data), "status": st, "stderr": err.decode(errors="replace")[-400:]}
        san = pvlib.san_kind(err)
        if st != 0 or san:
            pvlib.report_violation(ctx, f"shard-status:{n}:{comp}:{hx(data)[:40]}", rp,
                                   summary=f"shard -c {comp} into {n} files on {len(data)} bytes: exit status {st} {san or ''}")
            continue
        files, problems = [], []
        for nm in names:
            if not os.path.exists(nm):
                problems.append(f"missing output file {os.path.basename(nm)}")
                files.append(None)
                continue
            dec, prob = decode_file(nm, comp)
            if prob:
                problems.append(f"{os.path.basename(nm)}: {prob}")
            files.append(dec)
        if problems:
            rp["problems"] = problems
            pvlib.report_violation(ctx, f"shard-invalid:{n}:{comp}:{hx(data)[:40]}", rp,
                                   summary=f"shard -c {comp} into {n} files on {data[:40]!r}: {problems[0]}")
            continue
        # property predicates on the tool's own files
        inp = records(data)
        outs = [f.split(b"\n")[:-1] for f in files]
        flat = sorted(l for o in outs for l in o)
        bad = None
        if any(f and not f.endswith(b"\n") for f in files):
            bad = "a file does not end with a line terminator (it contains something that is not a line): ..." + repr([f[-12:] for f in files if f and not f.endswith(b"\n")][0])
        elif flat != sorted(inp):
            bad = "files do not contain every input line exactly once"
        else:
            for o in outs:
                it = iter(inp)
                if not all(any(x == y for y in it) for x in o):
                    bad = "a file does not preserve input order"
            where = {}
            for i, o in enumerate(outs):
                for l in o:
                    if where.setdefault(l, i) != i:
                        bad = f"equal lines {l!r} in different files"
        if bad:
            rp["files"] = [hx(f) for f in files]
            pvlib.report_violation(ctx, f"shard-partition:{n}:{comp}:{hx(data)[:40]}", rp, summary=f"shard into {n}: {bad}")
            continue
        got = "ok" + "".join(" " + hx(f) for f in files)
        if got != m:
            pvlib.report_violation(ctx, "corr:tools.shard", {"ops": [op], "impl": got[:600], "model": m[:600],
                                   "correspondence": "PV.Tools.shard vs bin/shard (which file a key lands in)"}, no_input=True,
                                   summary=f"shard model/impl differ on {op[:80]}")
            break
    # -c gzip / bzip2 on volumes at which the compressed output meets the writer's 4 KiB staging buffer at every alignment: the
    # stream class behind every shard file is driven directly with 48 MB (thorough: 256 MB) of incompressible data in writes of
    # 1..4096 bytes and the file is expanded with an independent decoder
    import zlib as _zlib
    implz = os.path.join(ctx.bdir, "harness", "implcompress")
    bulk = [f"z.writerand {c_} {ctx.seed * 1000 + 500 + k} {t_} 4096" for k, (c_, t_) in enumerate(
        [("gzip", 12_000_000)] * 4 + [("bzip2", 1_500_000)] if ctx.tier == "quick" else [("gzip", 16_000_000)] * 16 + [("bzip2", 4_000_000)] * 2)]
    from concurrent.futures import ThreadPoolExecutor
    with ThreadPoolExecutor(max_workers=8) as ex:
        bres = list(ex.map(lambda o_: pvlib.run_lines(implz, [o_], env=pvlib.san_env(), timeout=1800, per_line_timeout=600, stall=600)[0], bulk))
    ctx.count("shard-file-stream-bulk", len(bulk), bulk)
    for o_, x in zip(bulk, bres):
        xs = x.split()
        comp_ = o_.split()[1]
        if xs[0] != "ok":
            pvlib.report_violation(ctx, "shard-stream:" + o_, {"ops": [o_], "impl": x[:300]}, summary=f"{o_}: {x[:80]}")
            break
        raw = open(xs[1], "rb").read()
        os.unlink(xs[1])
        try:
            dec = gzip.decompress(raw) if comp_ == "gzip" else bz2.decompress(raw)
            prob = None if (len(dec) == int(xs[2]) and _zlib.crc32(dec) == int(xs[3])) else f"expands to {len(dec)} bytes with another checksum; {xs[2]} were written"
        except Exception as e:
            prob = f"is not a valid {comp_} stream: {e!r}"
        if prob:
            pvlib.report_violation(ctx, "shard-stream:" + o_, {"ops": [o_], "problem": prob, "file_bytes": len(raw)},
                                   summary=f"the {comp_} stream a shard file is written through, {xs[2]} pseudo-random bytes in writes of 1..4096 bytes ({o_}): the file {prob}")
            break
    # bzip2, end of stream with a completely FULL staging buffer: an input crafted (tools/craft_bz2.py, parameters in
    # corpus/bz2_full_staging.json, re-checked here against this machine's libbz2) so that libbz2 has emitted an exact multiple of
    # 4096 bytes when its first 900k block completes, inside the last 8192-byte piece the writer thread hands over
    import json as _json, craft_bz2
    try:
        cp = _json.load(open(os.path.join(pvlib.VERIF, "corpus", "bz2_full_staging.json")))
        ok_ = craft_bz2.qualifies(cp["seed"], cp["total"])
    except Exception as e:
        cp, ok_ = None, False
        ctx.notes.append({"bz2_full_staging": repr(e)})
    if not ok_ and ctx.tier != "quick":
        r_ = craft_bz2.search()
        if r_:
            cp, ok_ = {"seed": r_[0], "total": r_[1]}, True
    ctx.cov["bz2_full_staging_input"] = "used" if ok_ else "not available with this libbz2 (quick tier does not search)"
    if ok_:
        data = craft_bz2.data(cp["seed"], cp["total"])
        for label, n_, spec_ in (("one explicit output file", 1, None), ("one output file, key = field 2", 1, "2")):
            argv, names, st, err = run_shard(ctx, n_, "names", spec_, "\t", "bzip2", data, None)
            ctx.count("shard.bz2-full-staging", 1, [(label,)])
            prob = None
            outs = []
            if st != 0:
                prob = f"status {st}"
            else:
                for nm in names:
                    try:
                        outs.append(bz2.decompress(open(nm, "rb").read()))
                    except Exception as e:
                        prob = f"{os.path.basename(nm)} is not a valid bzip2 stream ({e!r})"
                        break
                if not prob and sorted(b"".join(outs).split(b"\n")) != sorted(data.split(b"\n")):
                    prob = "the files do not hold exactly the input lines"
            if prob:
                pvlib.report_violation(ctx, "shard-bz2-full-staging:" + label, {"argv": argv, "generator": f"tools/craft_bz2.py data(seed={cp['seed']}, total={cp['total']})", "status": st,
                                       "stderr": (err or b"").decode(errors="replace")[-300:] if isinstance(err, (bytes, bytearray)) else str(err)[-300:]},
                                       summary=f"shard -c bzip2 ({label}) on {cp['total']} bytes for which libbz2 has emitted {craft_bz2.emitted(data)} = k*4096 bytes when the input ends: {prob}")
                break
    # purity: the file of a key does not depend on neighbours / position
    base = [b"k%d" % i for i in range(30)]
    where = {}
    for trial in range(4):
        ls = base[:]
        rng.shuffle(ls)
        ls = ls[: rng.randrange(5, 30)]
        data = b"".join(l + b"\n" for l in ls)
        argv, names, st, err = run_shard(ctx, 5, "names", None, "\t", "none", data, None)
        ctx.count("shard.pure", 1, [data])
        for i, nm in enumerate(names):
            for l in open(nm, "rb").read().split(b"\n")[:-1]:
                if where.setdefault(l, i) != i:
                    pvlib.report_violation(ctx, "shard-pure:" + hx(l), {"argv": ["shard", "out0..out4"], "stdin_hex": hx(data), "line": hx(l)},
                                           summary=f"line {l!r} went to file {i} in one run and {where[l]} in another")
    # n = 0 must be diagnosed, not crash
    st, out, err = pvlib.run_tool([ctx.bin("shard"), "--prefix", os.path.join(ctx.tmp, "z"), "--number", "0"], b"a\n", env=pvlib.san_env())
    ctx.count("shard.zero", 1, ["n0"])
    diagnosed = (st == "sig6" and b"what()" in err) or (isinstance(st, int) and st not in (0, 97, 98))
    if not diagnosed or pvlib.san_kind(err):
        pvlib.report_violation(ctx, "shard-zero", {"argv": ["shard", "--prefix", "z", "--number", "0"], "stdin_hex": hx(b"a\n"), "status": st,
                               "stderr": err.decode(errors="replace")[-300:]},
                               summary=f"shard --number 0 is not diagnosed: status {st}")


def replay(ctx, rp):
    pvlib.generic_replay(ctx, rp)
