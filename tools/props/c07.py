"""C07 — foldfilter splits within the width and reassembles losslessly."""
import itertools, os
import pvlib
from pvlib import hx, unhx

LEVEL = "proof"
RULE = ("wrap_lines called in-process (foldfilter_main.cc included with main renamed; exact-size heap copy, ASan): all lines of "
        "<= 5 (quick) / 6 (thorough) symbols over {a, space, ',', '-', e-acute(2B), euro(3B), emoji(4B)} x widths 1..9 x delimiter "
        "lists {default, 'euro,comma', empty, space} x {-s, no -s}; seeded random long lines; the first/last code point of every UTF-8 length (U+7F..U+10FFFF) in text and as delimiter; oracle = the property itself "
        "evaluated on the implementation's pieces (lossless, width, code-point boundaries, withheld runs are delimiters); the "
        "real bin/foldfilter with `cat` as child on lines incl. CR; non-trivial = distinct op")
ASSUMPTIONS = ["model transcribes wrap_lines() and the reader loop by hand; DecodeUTF8 is the C12 model",
               "input lines are valid UTF-8 (the property's precondition); ill-formed input is covered by C20"]

SYMS = ["a", " ", ",", "-", "é", "€", "😀"]
DL = {"default": [ord(c) for c in ":, -./"], "euro": [ord("€"), ord(",")], "empty": [], "space": [32]}


def dl_str(dl):
    return ",".join(str(c) for c in dl) if dl else "-"


def judge(op, res):
    """the property on one wrap_lines result; returns list of failed clauses"""
    w = op.split()
    width, keep, dl, line = int(w[1]), w[2] == "1", ([] if w[3] == "-" else [int(c) for c in w[3].split(",")]), unhx(w[4])
    r = res.split()
    if not r or r[0] != "ok":
        return ["abnormal:" + res[:40]]
    items = [(unhx(t.split("/")[0]), unhx(t.split("/")[1])) for t in r[2:]]
    errs = []
    if b"".join(p + d for p, d in items) != line:
        errs.append("pieces and withheld runs do not concatenate to the line")
    for p, d in items:
        try:
            s = p.decode("utf-8")
            if len(p) > width and len(s) != 1:
                errs.append(f"piece {p!r} is {len(p)} bytes > width {width}")
        except UnicodeDecodeError:
            errs.append(f"piece {p!r} splits a code point")
        try:
            sd = d.decode("utf-8")
            if any(ord(c) not in dl for c in sd):
                errs.append(f"withheld run {d!r} contains a non-delimiter")
            if keep and d:
                errs.append("withheld run without -s")
        except UnicodeDecodeError:
            errs.append(f"withheld run {d!r} splits a code point")
    if not items:
        errs.append("no piece at all")
    return errs


def run(ctx):
    rng = ctx.rng
    impl = os.path.join(ctx.bdir, "harness", "implfold")
    maxn = 5 if ctx.tier == "quick" else 6
    ops = []
    for k in range(0, maxn + 1):
        for t in itertools.product(SYMS, repeat=k):
            line = "".join(t).encode()
            if ctx.tier == "quick" and k == 5 and rng.random() < 0.8:
                continue
            for wd in range(1, 10):
                for dn, dl in DL.items():
                    for keep in (1, 0):
                        if ctx.tier == "quick" and k >= 4 and rng.random() < 0.5:
                            continue
                        ops.append(f"fold.wrap {wd} {keep} {dl_str(dl)} {hx(line)}")
    for _ in range(20000 if ctx.tier == "quick" else 200000):
        n = rng.randrange(0, 60)
        wts = rng.choice([[5, 1, 3, 2, 1, 1, 1], [1, 5, 5, 5, 1, 3, 1], [1] * 7])
        line = "".join(rng.choices(SYMS, wts, k=n)).encode()
        ops.append(f"fold.wrap {rng.randrange(1, 16)} {rng.randrange(2)} {dl_str(rng.choice(list(DL.values())))} {hx(line)}")
    # the first and last code point of every UTF-8 length (and the surrogate gap's neighbours), alone, in text and as delimiter
    edges = [0x7F, 0x80, 0x7FF, 0x800, 0xD7FF, 0xE000, 0xFFFD, 0xFFFF, 0x10000, 0x10FFFE, 0x10FFFF]
    for cp in edges:
        c = chr(cp)
        for line in (c, "ab" + c + "cd", c * 3, "a " + c + ", b", c + " " + c):
            for wd in (1, 2, 4, 5, 80):
                for dl in (DL["default"], [cp], [cp, 32]):
                    ops.append(f"fold.wrap {wd} {rng.randrange(2)} {dl_str(dl)} {hx(line.encode())}")
    ops = list(dict.fromkeys(ops))
    bad, a, b = pvlib.diff_streams(ctx, "fold.wrap", ops, impl_exe=impl)
    ctx.cov["pieces_total"] = sum(int(x.split()[1]) for x in a if x.startswith("ok "))
    viol = []
    for o, x in zip(ops, a):
        e = judge(o, x)
        if e:
            viol.append((o, x, e))
    if viol:
        viol.sort(key=lambda v: len(v[0]))
        o, x, e = viol[0]
        w = o.split()
        pvlib.report_violation(ctx, "fold.wrap:" + o, {"ops": [o], "impl": x, "failed": e, "line": unhx(w[4]).decode("utf-8", "replace"),
                               "n_violating": len(viol)},
                               summary=f"foldfilter -w {w[1]}{'' if w[2] == '1' else ' -s'} on {unhx(w[4]).decode('utf-8', 'replace')!r}: {e[0]}")
    elif bad:
        i, o, x, y = bad[0]
        pvlib.report_violation(ctx, "corr:fold.wrap", {"ops": [q[1] for q in bad[:10]], "impl": x, "model": y,
                               "correspondence": "PV.Fold.wrapLines vs wrap_lines()"}, no_input=True,
                               summary=f"{o}: impl {x[:80]} model {y[:80]} (both satisfy the property)")
    # the real tool with an identity child: output must equal input, line counts match
    texts = []
    base = ["intro" + "." * 300 + " 12", "a" + " " * 255 + "b" + " " * 256 + "c" + " " * 257 + "d" + ", " * 200 + "e", "x" * 30 + "\u20ac" * 90 + "y",
            "", "a", "a\rb", "a\r", "\r", "ab cd, ef-gh", "aaaa€", "é" * 7, "a" * 200 + " " + "b" * 30, "😀😀😀", "x, y, z", "a\r\rb\r"]
    for _ in range(10 if ctx.tier == "quick" else 60):
        ls = [rng.choice(base) if rng.random() < 0.6 else "".join(rng.choices(SYMS + ["\r"], k=rng.randrange(0, 40))) for _ in range(rng.randrange(0, 8))]
        texts.append(ls)
    texts.append(base)
    texts.append([])
    for ls in texts:
        data = "".join(l + "\n" for l in ls).encode()
        for args in (["-w", "3"], ["-w", "5", "-s"], ["-w", "80"], ["-w", "2", "-d", "€,"]):
            st, out, err = pvlib.run_tool([ctx.bin("foldfilter")] + args + ["cat"], data, env=pvlib.san_env(), timeout=30)
            ctx.count("foldfilter-cat", 1, [(tuple(ls), tuple(args))])
            # the C02 reader strips one CR before LF from *input* lines: expected output is the records, re-terminated
            want = "".join((l[:-1] if l.endswith("\r") else l) + "\n" for l in ls).encode()
            if st != 0 or out != want:
                gl, wl = out.split(b"\n"), want.split(b"\n")
                k = next((i for i, (p, q) in enumerate(zip(gl, wl)) if p != q), min(len(gl), len(wl)))
                pvlib.report_violation(ctx, "foldfilter-cat:" + hx(data)[:60] + ":" + " ".join(args), {
                    "argv": ["foldfilter"] + args + ["cat"], "stdin_hex": hx(data), "status": st,
                    "got_line": hx(gl[k]) if k < len(gl) else None, "want_line": hx(wl[k]) if k < len(wl) else None,
                    "stderr": err.decode(errors="replace")[-300:]},
                    summary=f"foldfilter {' '.join(args)} cat does not reproduce line {k}: got {gl[k] if k < len(gl) else None!r} "
                            f"want {wl[k] if k < len(wl) else None!r} (status {st})")
                break
    # the pieces the CHILD receives from the real tool (option handling included) are the pieces the model cuts for the width, the
    # delimiter list and the -s mode that were asked for: multi-byte delimiter lists with widths below, at and above their byte length
    log = os.path.join(ctx.tmp, "fold_pieces.log")
    tl_lines = ["abcdef\u3002gh", "ab \u20ac cd, ef", "\u3002\u3002ab\u3001cdefgh\u3002", "a", "", "xyz" * 9, "h\u00e9llo w\u00f6rld \U0001F600 ok"]
    for wd in (1, 2, 3, 4, 5, 7, 80):
        for dname, dl in (("cjk", [0x3002, 0x3001, 32]), ("euro", [0x20ac, 44]), ("emoji", [0x1F600]), ("default", None), ("empty", [])):
            for sflag in (0, 1):
                if ctx.tier == "quick" and rng.random() < 0.5:
                    continue
                args = ["-w", str(wd)] + (["-s"] if sflag else []) + ([] if dl is None else ["-d", "".join(chr(c) for c in dl)])
                data = "".join(l + "\n" for l in tl_lines).encode()
                if os.path.exists(log):
                    os.unlink(log)
                st, out, err = pvlib.run_tool([ctx.bin("foldfilter")] + args + ["tee", log], data, env=pvlib.san_env(), timeout=30)
                got = open(log, "rb").read().split(b"\n")[:-1] if os.path.exists(log) else []
                mops = [f"fold.wrap {wd} {0 if sflag else 1} {dl_str(DL['default'] if dl is None else dl)} {hx(l.encode())}" for l in tl_lines]
                mres = pvlib.run_lines(pvlib.PVDRIVER, mops)
                want = []
                for r_ in mres:
                    want += [unhx(t.split("/")[0]) for t in r_.split()[2:]] if r_.startswith("ok ") else [b"<model error>"]
                ctx.count("foldfilter.child-pieces", 1, [(wd, dname, sflag)])
                if st != 0 or out != data or got != want:
                    k = next((i for i, (p_, q_) in enumerate(zip(got, want)) if p_ != q_), min(len(got), len(want)))
                    pvlib.report_violation(ctx, f"foldfilter-pieces:{wd}:{dname}:{sflag}", {"argv": ["foldfilter"] + args + ["tee", "LOG"], "stdin_hex": hx(data), "status": st,
                                           "piece_index": k, "child_received": hx(got[k]) if k < len(got) else None, "pieces_for_these_options": hx(want[k]) if k < len(want) else None},
                                           summary=f"foldfilter {' '.join(args)}: the child received piece {k} = {got[k] if k < len(got) else None!r}; for width {wd} and these delimiters the "
                                                   f"pieces are {want[k] if k < len(want) else None!r} ... (status {st}, output {'equal' if out == data else 'differs'})")
                    break
            else:
                continue
            break
        else:
            continue
        break
    import wrappers
    data, pauses = wrappers.paced_corpus("foldfilter")
    for args in (["-w", "30"], ["-w", "7", "-s"]):
        st, out, err, trace = wrappers.run_traced(ctx, ["foldfilter"] + args, data, ["eager"], timeout=120, pauses=pauses)
        ctx.count("foldfilter.paced", 1, [tuple(args)])
        if st != 0 or out != data:
            gl, wl = out.split(b"\n"), data.split(b"\n")
            k = next((i for i, (p_, q_) in enumerate(zip(gl, wl)) if p_ != q_), min(len(gl), len(wl)))
            pvlib.report_violation(ctx, "foldfilter-paced:" + " ".join(args), {"argv": ["foldfilter"] + args + ["python3", "harness/children/child.py", "eager"],
                                   "stdin_hex": hx(data)[:400000], "stdin_stalls_at_byte_offsets": pauses, "status": st, "line": k,
                                   "stderr": err.decode(errors="replace")[-300:]},
                                   summary=f"foldfilter {' '.join(args)} with an identity child on {len(wl) - 1} lines, stdin stalling around the queue-page multiples: "
                                           f"status {st}, {len(gl) - 1} lines out, first wrong line {k}")
            break


def replay(ctx, rp):
    if "stdin_stalls_at_byte_offsets" in rp:
        import wrappers
        i = rp["argv"].index("python3")
        st, out, err, trace = wrappers.run_traced(ctx, rp["argv"][:i], unhx(rp["stdin_hex"]), rp["argv"][i + 2:], timeout=120, pauses=rp["stdin_stalls_at_byte_offsets"])
        print("status", st, "stdout bytes", len(out), err[-300:])
        return
    if "ops" in rp:
        impl = os.path.join(ctx.bdir, "harness", "implfold")
        a = pvlib.run_lines(impl, rp["ops"], env=pvlib.san_env())
        b = pvlib.run_lines(pvlib.PVDRIVER, rp["ops"])
        for o, x, y in zip(rp["ops"], a, b):
            print(f"{o}\n  impl : {x}\n  model: {y}\n  property clauses failed by impl: {judge(o, x)}")
    if "argv" in rp:
        pvlib.generic_replay(ctx, {"argv": rp["argv"], "stdin_hex": rp["stdin_hex"]})
