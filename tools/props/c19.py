"""C19 — process_unicode applies the requested transforms to every line, each char once."""
import itertools, os
import pvlib
from pvlib import hx, unhx

LEVEL = "proof"
RULE = ("Flatten::Apply in-process for en/fr/de/es/cs on all sequences of <= 3 (quick) / 4 (thorough) symbols over an alphabet of rule "
        "triggers (quotes, backticks, ampersand entities, ' s, year-old, digit-brace, ligatures, dashes), spaces, letters and "
        "supplementary-plane characters, plus seeded longer lines; oracle = the code-point level specification (leftmost, longer "
        "alternatives first, copy otherwise) with ICU's u_isspace passed in; util::Normalize (both overloads) and util::ToLower against Normalizer2 / toLower on sequences over composing material (combining "
        "marks in and out of order, jamo, compatibility and precomposed forms), and every Normalize output must satisfy "
        "Normalizer2::isNormalized; bin/process_unicode for all 8 flag combinations x 5 "
        "languages on line sequences, expected line = ICU lower / model flatten / ICU NFKC (Normalizer2 called directly, not util::Normalize) composed in order, checked per line "
        "index; non-trivial = distinct (language, text) / (flags, language, lines)")
ASSUMPTIONS = ["ICU's toLower, NFKC and u_isspace are parameters of the model (their values are taken from the same ICU build)",
               "rule tables are regenerated from util/utf8_icu.cc as built by the C++ code"]

LANGS = ["en", "fr", "de", "es", "cs"]
SYMS = ["a", " ", "'", "`", "s", "&", " quot ;", " - year - old", "1", "{", "æ", "“", "’", "—", "\U0001F600",
        "\U00010348", "ﬁ", " ", "-", "'' ", "«"]


def u16(s):
    b = s.encode("utf-16-le")
    return ",".join(str(int.from_bytes(b[i:i + 2], "little")) for i in range(0, len(b), 2)) or "-"


def from_u16(csv):
    if csv == "-":
        return ""
    b = b"".join(int(x).to_bytes(2, "little") for x in csv.split(","))
    return b.decode("utf-16-le", "surrogatepass")


def run(ctx):
    rng = ctx.rng
    impl = os.path.join(ctx.bdir, "harness", "implicu")
    cps = sorted(set(ord(c) for s in SYMS for c in s) | {0x3000, 0x2028, 9, 13})
    spaces = pvlib.run_lines(impl, ["icu.spaces " + ",".join(map(str, cps))], env=pvlib.san_env())[0].split()[1]
    ctx.cov["u_isspace_true_for"] = spaces
    texts = []
    maxn = 3 if ctx.tier == "quick" else 4
    for n in range(0, maxn + 1):
        for t in itertools.product(SYMS, repeat=n):
            if ctx.tier == "quick" and n == 3 and rng.random() < 0.6:
                continue
            texts.append("".join(t))
    for _ in range(2000 if ctx.tier == "quick" else 20000):
        texts.append("".join(rng.choice(SYMS) for _ in range(rng.randrange(4, 25))))
    # supplementary-plane characters whose low 16 bits equal a BMP character that starts a rule (and the planes' edges)
    heads = sorted(set(ord(s_[0]) for s_ in SYMS if s_ and ord(s_[0]) < 0x10000) | {0x30, 0xA0, 0xE6, 0x201C, 0x2026, 0x2014, 0xB7, 0xFF08, 0x26, 0x27, 0x60})
    for h in heads:
        for plane in (1, 2, 0x10):
            c = chr(plane * 0x10000 + h)
            texts += [c, "a" + c + "b", c + c, c + " " + chr(h), chr(h) + c]
    texts = list(dict.fromkeys(texts))
    # every rule the source text lists, in every language: the trigger alone, inside a word, before a space, at the end of the line
    import gen_consts
    per_lang = []
    try:
        for name, rules in sorted(gen_consts.flatten_source_arrays().items()):
            for frm, to in rules:
                for t in (frm, "x" + frm + "y", "geht" + frm + " ja", "so" + frm):
                    for lang in LANGS:
                        per_lang.append((lang, t))
    except Exception as e:
        ctx.notes.append({"rule_arrays_not_parsed": repr(e)})
    ctx.cov["rule_trigger_cases"] = len(per_lang)
    ops_i, ops_m = [], []
    for lang, t in per_lang:
        ops_i.append(f"flat.apply {lang} {u16(t)}")
        ops_m.append(f"flat.apply {lang} {spaces} {u16(t)}")
    for i, t in enumerate(texts):
        lang = LANGS[i % 5]
        ops_i.append(f"flat.apply {lang} {u16(t)}")
        ops_m.append(f"flat.apply {lang} {spaces} {u16(t)}")
    a = pvlib.run_lines(impl, ops_i, env=pvlib.san_env())
    b = pvlib.run_lines(pvlib.PVDRIVER, ops_m)
    sp = pvlib.run_lines(pvlib.PVDRIVER, [o.replace("flat.apply", "flat.spec.apply") for o in ops_m])
    ctx.count("flat.apply", len(ops_i), ops_i)
    ctx.sample({"op": ops_i[len(ops_i) // 2], "impl": a[len(a) // 2], "model": b[len(b) // 2]})
    viol = [(o, x, s) for o, x, s in zip(ops_i, a, sp) if x != s]
    if viol:
        viol.sort(key=lambda v: len(v[0]))
        o, x, s = viol[0]
        w = o.split()
        pvlib.report_violation(ctx, "flat:" + o, {"ops": [o], "text": from_u16(w[2]), "impl": x, "spec": s, "impl_text": from_u16(x.split()[1]) if x.startswith("ok ") else x,
                               "spec_text": from_u16(s.split()[1]) if s.startswith("ok ") else s, "n_disagreeing": len(viol)},
                               summary=f"Flatten({w[1]}) on {from_u16(w[2])!r}: got {from_u16(x.split()[1]) if x.startswith('ok ') else x!r}, "
                                       f"specification {from_u16(s.split()[1]) if s.startswith('ok ') else s!r}")
    else:
        bad = [(o, x, y) for o, x, y in zip(ops_i, a, b) if x != y]
        if bad:
            o, x, y = bad[0]
            pvlib.report_violation(ctx, "corr:flat.apply", {"ops": [o], "impl": x, "model": y, "correspondence": "PV.Flatten.apply vs Flatten::Apply"},
                                   no_input=True, summary=f"{o}: impl {x} model {y}")
    # ---- util::Normalize / util::ToLower against ICU's own Normalizer2 / UnicodeString::toLower (the model's parameters):
    # sequences over composing material (base letters + combining marks in and out of canonical order, conjoining jamo,
    # compatibility characters that force the slow path, precomposed forms)
    comp = ["e", "\u0301", "\u0323", "a", "\u0308", "\u1112", "\u1161", "\u11ab", "ﬁ", "é", "Å", "\u212b", "①", "Ａ", "\u0345", " ", "x",
            "\u0f71", "\u0f72", "\U0001d15e", "İ", "Σ", "ς"]
    ntexts = [""] + ["".join(t) for n in (1, 2, 3) for t in itertools.product(comp, repeat=n) if n < 3 or rng.random() < (0.15 if ctx.tier == "quick" else 1.0)]
    ntexts += ["".join(rng.choice(comp) for _ in range(rng.randrange(4, 16))) for _ in range(300 if ctx.tier == "quick" else 5000)]
    ntexts = list(dict.fromkeys(ntexts))
    un = pvlib.run_lines(impl, ["util.nfkc " + u16(t) for t in ntexts], env=pvlib.san_env())
    ic = pvlib.run_lines(impl, ["icu.nfkc " + u16(t) for t in ntexts], env=pvlib.san_env())
    u8 = pvlib.run_lines(impl, ["util.nfkc8 " + hx(t.encode("utf-8")) for t in ntexts], env=pvlib.san_env())
    isn = pvlib.run_lines(impl, ["icu.isnfkc " + (x.split()[1] if x.startswith("ok ") else "-") for x in un], env=pvlib.san_env())
    ul = pvlib.run_lines(impl, ["util.lower8 " + hx(t.encode("utf-8")) for t in ntexts], env=pvlib.san_env())
    il = pvlib.run_lines(impl, ["icu.lower " + u16(t) for t in ntexts], env=pvlib.san_env())
    ctx.count("util.nfkc", len(ntexts), [("nfkc", t) for t in ntexts])
    ctx.count("util.lower", len(ntexts), [("lower", t) for t in ntexts])
    for t, x, y, z, n_ in sorted(zip(ntexts, un, ic, u8, isn), key=lambda q: len(q[0])):
        z16 = "ok " + u16(unhx(z.split()[1]).decode("utf-8", "surrogatepass")) if z.startswith("ok ") else z
        if x != y or z16 != y or n_ != "ok 1":
            pvlib.report_violation(ctx, "nfkc:" + u16(t), {"ops": ["util.nfkc " + u16(t), "icu.nfkc " + u16(t), "util.nfkc8 " + hx(t.encode("utf-8"))], "text": t,
                                   "util_Normalize": x, "util_Normalize_utf8": z16, "icu_Normalizer2_NFKC": y, "output_isNormalized": n_},
                                   summary=f"util::Normalize on {[hex(ord(c)) for c in t]}: got {x} (UTF-8 overload {z16}); ICU NFKC is {y}; "
                                           f"output is NFKC-normalized: {n_}")
            break
    for t, x, y in sorted(zip(ntexts, ul, il), key=lambda q: len(q[0])):
        x16 = "ok " + u16(unhx(x.split()[1]).decode("utf-8", "surrogatepass")) if x.startswith("ok ") else x
        if x16 != y:
            pvlib.report_violation(ctx, "lower:" + u16(t), {"ops": ["util.lower8 " + hx(t.encode("utf-8")), "icu.lower " + u16(t)], "text": t, "util_ToLower": x16, "icu_toLower": y},
                                   summary=f"util::ToLower on {[hex(ord(c)) for c in t]}: got {x16}; ICU toLower is {y}")
            break
    # ---- the tool: all 8 flag sets x languages x line sequences, per line index
    pool = ["Hello World", "``quoted'' text", "John ' s car", "5{ years", "æsop ﬁsh", "x\U0001F600y", "& quot ; hi", "STRASSE Ä", "a b",
            "", "plain", "“q”", "10 - year - old boy", "① Ａ", "\U00010348\U00010348", "tail'",
            "cafe\u0301", "cafe\u0301 ﬁn", "\u1112\u1161\u11ab", "a\u0323\u0308 q\u0308\u0323", "A\u030a ÅNGSTRÖM \u212b"]
    flagsets = list(itertools.product([0, 1], repeat=3))
    nseq = 10 if ctx.tier == "quick" else 60
    def check_seq(lines, lo, fl, nf, lang):
        data = "".join(l + "\n" for l in lines).encode("utf-8")
        args = ["-l", lang] + (["--lower"] if lo else []) + (["--flatten"] if fl else []) + (["--normalize"] if nf else [])
        st, out, err = pvlib.run_tool([ctx.bin("process_unicode")] + args, data, env=pvlib.san_env())
        ctx.count("process_unicode", 1, [(tuple(args), data)])
        # expected, line by line
        cur = [pvlib.run_lines(impl, ["icu.fromutf8 " + hx(l.encode("utf-8"))], env=pvlib.san_env())[0].split()[1] for l in lines]
        if lo:
            cur = [r.split()[1] for r in pvlib.run_lines(impl, ["icu.lower " + c for c in cur], env=pvlib.san_env())]
        if fl:
            cur = [r.split()[1] for r in pvlib.run_lines(pvlib.PVDRIVER, [f"flat.spec.apply {lang} {spaces} {c}" for c in cur])]
        if nf:
            cur = [r.split()[1] for r in pvlib.run_lines(impl, ["icu.nfkc " + c for c in cur], env=pvlib.san_env())]
        want = [unhx(r.split()[1]) for r in pvlib.run_lines(impl, ["icu.toutf8 " + c for c in cur], env=pvlib.san_env())]
        got = out.split(b"\n")[:-1]
        if st != 0 or got != want:
            k = next((i for i, (p, q) in enumerate(zip(got, want)) if p != q), min(len(got), len(want)))
            pvlib.report_violation(ctx, "pu:" + " ".join(args) + ":" + hx(data)[:60], {
                "argv": ["process_unicode"] + args, "stdin_hex": hx(data), "status": st, "line_index": k,
                "got": got[k].decode("utf-8", "replace") if k < len(got) else None,
                "want": want[k].decode("utf-8", "replace") if k < len(want) else None},
                summary=f"process_unicode {' '.join(args)} on {lines!r}: line {k} is {got[k].decode('utf-8', 'replace') if k < len(got) else None!r}, "
                        f"the requested transforms applied to that line alone give {want[k].decode('utf-8', 'replace') if k < len(want) else None!r}")
            return False
        return True

    for (lo, fl, nf) in flagsets:
        for lang in (LANGS if ctx.tier != "quick" else rng.sample(LANGS, 2)):
            for _ in range(nseq // 5 or 1):
                lines = [rng.choice(pool) for _ in range(rng.randrange(1, 7))]
                if not check_seq(lines, lo, fl, nf, lang):
                    break
    # carriage returns are characters like any other (CRLF corpora), and text that begins like a compressed file is text
    for (lo, fl, nf) in [(0, 0, 0), (1, 0, 0), (0, 1, 1), (1, 1, 1)]:
        for seq in (["Hello World\r", "\r", "a\r\r", "plain", "x\ry\r"], ["BZh91AY is how this line begins", "second"]):
            if not check_seq(seq, lo, fl, nf, "en"):
                return
    # a line that ENDS in the beginning of a multi-character rule, after lines that have the whole rule at the same
    # column (the tool reuses its string objects: what follows the end of the line in memory is the previous text)
    rules = ["``", "''", "& quot ;", "& lt ;", "& gt ;", "& amp ;", "' s", "- year - old", "0{"]
    for (lo, fl, nf) in [(0, 1, 0), (0, 1, 1), (1, 1, 0), (1, 1, 1)]:
        for lang in (["en", "fr"] if ctx.tier == "quick" else LANGS):
            for R in rules:
                cuts = range(1, len(R)) if ctx.tier != "quick" else sorted({1, len(R) - 1, rng.randrange(1, len(R))})
                for j in cuts:
                    P = "ab"[:rng.randrange(0, 3)] + rng.choice(["", "The dogs", "x "])
                    if not check_seq([P + R + "z w", P + R + "z w", P + R[:j], "plain", P + R[:j]], lo, fl, nf, lang):
                        return


def replay(ctx, rp):
    if "ops" in rp:
        impl = os.path.join(ctx.bdir, "harness", "implicu")
        for o, x in zip(rp["ops"], pvlib.run_lines(impl, rp["ops"], env=pvlib.san_env())):
            print(o, "\n  impl:", x)
    if "argv" in rp:
        pvlib.generic_replay(ctx, {"argv": rp["argv"], "stdin_hex": rp["stdin_hex"]})
