"""C15 — compressed I/O is transparent and interoperable."""
import bz2, gzip, lzma, os, subprocess, zlib
import pvlib
from pvlib import hx, unhx

LEVEL = "proof"
RULE = ("util::WriteCompressed (gzip, bzip2, none) in-process for seeded write-size sequences and flush positions incl. no data at all, "
        "empty writes, incompressible/compressible/larger-than-every-buffer data: the file must expand with Python's zlib/bz2 AND the "
        "gzip/bzip2 command line tools to exactly the written bytes; util::ReadCompressed on gzip/bzip2/xz/plain, single and "
        "concatenated members, delivered in scripted fragments (read(2) interposed), with varying Read() sizes: the bytes must equal an "
        "independent decoder's; EVERY truncation point of small streams (and sampled ones of large; two-member streams of all 9 format pairs around the member boundary) must end in an error within the "
        "timeout, never a shorter success or a hang; GZCompress round-trips for sizes 0..70000; every PV_TRACE event log of the stream "
        "classes (each codec call with its input/output space before and after) must be accepted by the Lean controller model; "
        "non-trivial = distinct op")
ASSUMPTIONS = ["zlib/bzip2/liblzma are oracles of the model: their answers are taken from the trace; their correctness is checked against "
               "independent decoders, not proved", "buffer size 4096 and kMinOutput 6 (gzip) / 1 (bzip2) as in the source"]


def py_decode(comp, raw):
    if comp == "none":
        return raw
    if comp == "gzip":
        out, rest = b"", raw
        while rest:
            d = zlib.decompressobj(31)
            out += d.decompress(rest)
            if not d.eof:
                raise ValueError("truncated gzip")
            rest = d.unused_data
        return out
    out, rest = b"", raw
    while rest:
        d = bz2.BZ2Decompressor()
        out += d.decompress(rest)
        if not d.eof:
            raise ValueError("truncated bzip2")
        rest = d.unused_data
    return out


def tool_decode(comp, raw):
    if comp == "none":
        return 0, raw
    p = subprocess.run(["gzip" if comp == "gzip" else "bzip2", "-dc"], input=raw, stdout=subprocess.PIPE, stderr=subprocess.PIPE)
    return p.returncode, p.stdout


def gen_data(rng, n):
    m = rng.random()
    if m < 0.3:
        return bytes(rng.randrange(256) for _ in range(n))
    if m < 0.6:
        return bytes([rng.randrange(256)]) * n
    return bytes(rng.choice(b"abc \n") for _ in range(n))


def run(ctx):
    impl = os.path.join(ctx.bdir, "harness", "implcompress")
    # one write() call of 2^32 + k bytes (zlib's avail_in is 32 bits wide; the stream class must cut the call up) runs in the background:
    # 4 GiB really go through deflate, about 40 s
    import threading
    hops = ["z.writehuge gzip %d" % ((1 << 32) + 123457)] + ([] if ctx.tier == "quick" else ["z.writehuge gzip %d" % (1 << 32), "z.writehuge bzip2 %d" % ((1 << 32) + 5)])
    hres = {}

    def _huge():
        try:
            hres["out"] = pvlib.run_lines(impl, hops, env=pvlib.san_env({"PV_TMP": os.path.join(pvlib.VERIF, ".cache", "tmp")}), timeout=3000, stall=3000)
        except Exception as e:
            hres["out"] = e
    th = threading.Thread(target=_huge, daemon=True)
    th.start()
    try:
        run_rest(ctx)
    finally:
        th.join()
        if isinstance(hres.get("out"), Exception):
            raise hres["out"]
        ctx.count("z.writehuge", len(hops), hops)
        for o, x in zip(hops, hres["out"]):
            n = int(o.split()[2])
            if not x.startswith("ok ") and not x.startswith("skipped"):
                pvlib.report_violation(ctx, "zwrite-huge:" + o, {"ops": [o], "impl": x[:300], "text": f"{n} bytes = 2^32 + {n - (1 << 32)} in ONE write() call: NUL bytes with a marker byte every 1048573 bytes"},
                                       summary=f"WriteCompressed({o.split()[1]}) given {n} bytes (2^32 + {n - (1 << 32)}) in one write() call: the file {x[:100]}")
                break


def run_rest(ctx):
    rng = ctx.rng
    impl = os.path.join(ctx.bdir, "harness", "implcompress")
    # bzip2: end of stream with a completely full staging buffer (input crafted by tools/craft_bz2.py): one write() call, then flush
    import json as _json, craft_bz2, bz2 as _bz2
    try:
        cp = _json.load(open(os.path.join(pvlib.VERIF, "corpus", "bz2_full_staging.json")))
        if craft_bz2.qualifies(cp["seed"], cp["total"]):
            data = craft_bz2.data(cp["seed"], cp["total"])
            o = f"z.write bzip2 w{len(data)},f {hx(data)}"
            x = pvlib.run_lines(impl, [o], env=pvlib.san_env(), timeout=300)[0]
            ctx.count("z.write.bz2-full-staging", 1, [o[:60]])
            w = x.split()
            okk = False
            if w and w[0] == "ok":
                try:
                    okk = _bz2.decompress(pvlib.unhx(w[1])) == data
                except Exception:
                    okk = False
            if not okk:
                pvlib.report_violation(ctx, "zwrite-bz2-full-staging", {"ops": [f"z.write bzip2 w{len(data)},f <data>"], "generator": f"tools/craft_bz2.py data(seed={cp['seed']}, total={cp['total']})",
                                       "impl": x[:200]},
                                       summary=f"WriteCompressed(bzip2): one write() of {len(data)} bytes after which libbz2's output fills the 4096-byte staging buffer exactly, then flush(): "
                                               f"{x[:80] if not x.startswith('ok') else 'the file does not expand to the bytes written'}")
        else:
            ctx.cov["bz2_full_staging_input"] = "does not qualify with this libbz2"
    except FileNotFoundError:
        ctx.cov["bz2_full_staging_input"] = "corpus file missing"
    # ---------------- writer
    ops = []
    for comp in ("gzip", "bzip2", "none"):
        ops.append(f"z.write {comp} - -")
        ops.append(f"z.write {comp} f -")
        ops.append(f"z.write {comp} f,f -")
        ops.append(f"z.write {comp} w0 -")
        ops.append(f"z.write {comp} w0,f,w0 -")
        for _ in range(25 if ctx.tier == "quick" else 300):
            n = rng.choice([1, 2, 100, 4095, 4096, 4097, 8192, 20000, rng.randrange(0, 70000)])
            data = gen_data(rng, n)
            script, left = [], n
            while left > 0:
                k = min(left, rng.choice([1, 7, 4096, 4097, 10000, left]))
                script.append(f"w{k}")
                left -= k
                if rng.random() < 0.25:
                    script.append("f")
                if rng.random() < 0.1:
                    script.append("w0")
            ops.append(f"z.write {comp} {','.join(script) or '-'} {hx(data)}")
    a = pvlib.run_lines(impl, ops, env=pvlib.san_env(), timeout=900)
    ctx.count("z.write", len(ops), ops)
    acc = []
    for o, x in zip(ops, a):
        w = o.split()
        comp, script, data = w[1], w[2], unhx(w[3])
        written = b""
        off = 0
        for t in script.split(","):
            if t.startswith("w"):
                k = int(t[1:])
                written += data[off:off + k]
                off += k
        xs = x.split()
        if xs[0] != "ok":
            pvlib.report_violation(ctx, "zwrite:" + o[:120], {"ops": [o[:4000]], "impl": x[:300]}, summary=f"WriteCompressed({comp}) script {script[:60]}: {x[:60]}")
            continue
        raw = unhx(xs[1])
        problem = None
        try:
            dec = py_decode(comp, raw)
            if dec != written:
                problem = f"expands to {len(dec)} bytes, {len(written)} were written"
        except Exception as e:
            problem = f"not a valid {comp} stream: {e!r}"
        if not problem:
            rc, dec2 = tool_decode(comp, raw)
            if rc != 0 or dec2 != written:
                problem = f"the standard {comp} tool rejects it or differs (rc {rc})"
        if problem:
            pvlib.report_violation(ctx, "zwrite:" + o[:120], {"ops": [o[:4000]], "file_hex": hx(raw)[:400], "problem": problem},
                                   summary=f"WriteCompressed({comp}) with writes/flushes {script[:60]} ({len(written)} bytes): output {problem}")
            continue
        if comp != "none":
            acc.append((o, f"z.waccept 4096 {6 if comp == 'gzip' else 1} {xs[2]}", len(raw), len(written)))
    v = pvlib.run_lines(pvlib.PVDRIVER, [q[1] for q in acc], timeout=900)
    ctx.cov["traces_validated_against_impl"] = len(acc)
    for (o, q, flen, wlen), r in zip(acc, v):
        if not r.startswith("accepted") or f"file={flen} " not in r or f"given={wlen} consumed={wlen}" not in r or "inorder=true" not in r:
            pvlib.report_violation(ctx, "corr:z.waccept", {"ops": [o[:2000]], "trace": q[:3000], "verdict": r, "file_len": flen,
                                   "correspondence": "PV.Compress.wstep vs WriteStream::write/flush"}, no_input=True,
                                   summary=f"writer trace not accepted by the controller model or accounting differs: {r[:150]}")
            break
    # ---------------- writer, bulk: incompressible data in writes of 1..4096 bytes, so that the compressed output meets the
    # 4 KiB staging buffer at every alignment (in particular with 1..5 bytes of room left at the end of a write call)
    import zlib
    bulk = []
    for comp, total in (("gzip", 12_000_000), ("gzip", 12_000_000), ("gzip", 12_000_000), ("gzip", 12_000_000), ("bzip2", 1_500_000)) if ctx.tier == "quick" else \
            [("gzip", 16_000_000)] * 16 + [("bzip2", 4_000_000)] * 2:
        bulk.append(f"z.writerand {comp} {ctx.seed * 1000 + len(bulk)} {total} 4096")
    ba = pvlib.run_lines(impl, bulk, env=pvlib.san_env(), timeout=1800, per_line_timeout=300, stall=300)
    ctx.count("z.writerand", len(bulk), bulk)
    for o, x in zip(bulk, ba):
        xs = x.split()
        comp = o.split()[1]
        if xs[0] != "ok":
            pvlib.report_violation(ctx, "zbulk:" + o, {"ops": [o], "impl": x[:300]}, summary=f"{o}: {x[:80]}")
            continue
        path, total, crc = xs[1], int(xs[2]), int(xs[3])
        raw = open(path, "rb").read()
        os.unlink(path)
        problem = None
        try:
            dec = py_decode(comp, raw)
            if len(dec) != total or zlib.crc32(dec) != crc:
                problem = f"expands to {len(dec)} bytes with another checksum; {total} bytes were written"
        except Exception as e:
            problem = f"is not a valid {comp} stream: {e!r}"
        if problem:
            pvlib.report_violation(ctx, "zbulk:" + o, {"ops": [o], "problem": problem, "file_bytes": len(raw)},
                                   summary=f"WriteCompressed({comp}), {total} pseudo-random bytes in writes of 1..4096 bytes ({o}): the output {problem}")
            continue
        # (the event trace of a bulk run is not replayed through the Lean controller: the model tracks every produced byte
        # as an element of a list, which is quadratic at this size; the scripted cases above are replayed in full)
        nd = sum(1 for e in xs[4].split(";") if e.startswith("W.drain"))
        ctx.cov["bulk_drains"] = ctx.cov.get("bulk_drains", 0) + nd
    # ---------------- reader: formats, members, fragments, read sizes
    rops, want = [], []
    enc = {"gz": gzip.compress, "bz2": bz2.compress, "xz": lzma.compress, "plain": lambda b: b}
    for _ in range(60 if ctx.tier == "quick" else 600):
        members = [gen_data(rng, rng.choice([0, 1, 100, 5000, 16384, 40000])) for _ in range(rng.randrange(1, 4))]
        fmt = rng.choice(["gz", "bz2", "xz", "plain", "mix"])
        if fmt == "plain":
            members = [b"plain " + b"".join(members)]
            blob = members[0]
        else:
            blob = b"".join(enc[fmt if fmt != "mix" else rng.choice(["gz", "bz2", "xz"])](m) for m in members)
        sched = ",".join(str(rng.choice([1, 5, 100, 4096, 16384, 100000])) for _ in range(rng.randrange(0, 10))) or "-"
        amounts = ",".join(str(rng.choice([1, 7, 4096, 65536])) for _ in range(rng.randrange(1, 4)))
        rops.append(f"z.read {sched} {amounts} {hx(blob)}")
        want.append(b"".join(members))
    # members that end exactly at (and one byte around) the reader's 6 + k*16384 input-chunk boundaries
    for k in (1, 2):
        for delta in (-1, 0, 1):
            first = pvlib.gz_exact(6 + 16384 * k + delta, bytes(rng.choice(b"abcdef\n") for _ in range(6 + 16384 * k + delta)))
            if first:
                tail = [gen_data(rng, 3000), gen_data(rng, 10)]
                blob = first[1] + b"".join(gzip.compress(t) for t in tail)
                for sched in ("-", "1,1,1,1,1,1,100", "16384,5"):
                    rops.append(f"z.read {sched} 4096,7 {hx(blob)}")
                    want.append(first[0] + b"".join(tail))
    ra = pvlib.run_lines(impl, rops, env=pvlib.san_env(), timeout=900)
    ctx.count("z.read", len(rops), rops)
    racc = []
    for o, x, w in zip(rops, ra, want):
        xs = x.split()
        if xs[0] != "ok" or "ERR:" in x or unhx(xs[1]) != w:
            pvlib.report_violation(ctx, "zread:" + o[:120], {"ops": [o[:4000]], "impl": x[:300], "want_len": len(w)},
                                   summary=f"ReadCompressed: {len(unhx(xs[1])) if xs[0] == 'ok' else x[:40]} bytes / error instead of the {len(w)} original bytes")
            continue
        racc.append((o, f"z.raccept 0 {xs[-1]}"))
    # ---------------- truncation: every prefix of small streams, sampled prefixes of large ones
    tops, full = [], []
    for fmt in ("gz", "bz2", "xz"):
        small = enc[fmt](b"hello hello hello world\n" * 3)
        for k in range(1, len(small)):
            tops.append(f"z.read - 4096 {hx(small[:k])}")
            full.append((fmt, k, len(small)))
        big = enc[fmt](gen_data(rng, 60000))
        for k in sorted(set(rng.randrange(1, len(big)) for _ in range(25 if ctx.tier == "quick" else 300))):
            tops.append(f"z.read 7,100,4096 4096,1 {hx(big[:k])}")
            full.append((fmt, k, len(big)))
    # two-member streams (all 9 ordered format pairs): every truncation point, in particular the first bytes of the
    # second member, where the reader has a few leftover bytes and no more input; cutting exactly at the member
    # boundary leaves a complete stream (whole = the first member's data)
    whole = {}
    for f1 in ("gz", "bz2", "xz"):
        for f2 in ("gz", "bz2", "xz"):
            d1, d2 = b"first member %s\n" % f1.encode() * 2, b"second member %s\n" % f2.encode() * 2
            m1, m2 = enc[f1](d1), enc[f2](d2)
            two = m1 + m2
            ks = range(1, len(two)) if ctx.tier != "quick" else sorted(set(list(range(max(1, len(m1) - 8), min(len(two), len(m1) + 14))) + [rng.randrange(1, len(two)) for _ in range(12)]))
            for k in ks:
                tops.append(f"z.read {rng.choice(['-', '3,1,1,1,1,1,1,64'])} 4096 {hx(two[:k])}")
                full.append((f1 + "+" + f2, k, len(two)))
                if k == len(m1):
                    whole[len(tops) - 1] = d1
    ta = pvlib.run_lines(impl, tops, env=pvlib.san_env(), timeout=900, per_line_timeout=20)
    ctx.count("z.read.truncated", len(tops), tops)
    for idx, (o, x, (fmt, k, n)) in enumerate(zip(tops, ta, full)):
        if idx in whole:
            if not (x.startswith("ok ") and unhx(x.split()[1]) == whole[idx]):
                pvlib.report_violation(ctx, f"zwhole:{fmt}:{k}", {"ops": [o[:4000]], "impl": x[:200], "format": fmt},
                                       summary=f"{fmt}: a stream consisting of exactly the first member is not read back as that member's data: {x[:60]}")
                break
            continue
        if x == "HANG" or "ERR:" not in x:
            # a prefix shorter than the magic is plain data: fine
            blob = unhx(o.split()[3])
            if k < 6 and x.startswith("ok ") and unhx(x.split()[1]) == blob:
                continue
            pvlib.report_violation(ctx, f"ztrunc:{fmt}:{k}", {"ops": [o[:4000]], "impl": x[:200], "format": fmt, "truncated_at": k, "of": n},
                                   summary=f"{fmt} stream truncated at byte {k} of {n}: {'hang' if x == 'HANG' else 'reported as a shorter success'} instead of an error")
            break
        racc.append((o, f"z.raccept 0 {x.split()[-1]}"))
    rv = pvlib.run_lines(pvlib.PVDRIVER, [q[1] for q in racc], timeout=900)
    ctx.cov["traces_validated_against_impl"] += len(racc)
    for (o, q), r in zip(racc, rv):
        if not r.startswith("accepted") or "progress=true" not in r:
            pvlib.report_violation(ctx, "corr:z.raccept", {"ops": [o[:2000]], "trace": q[:3000], "verdict": r,
                                   "correspondence": "PV.Compress.rstep vs ReadStream::Read"}, no_input=True,
                                   summary=f"reader trace not accepted by the controller model (or the codec made no progress): {r[:150]}")
            break
    # ---------------- xz streams declaring dictionaries of 64 MiB .. 1 GiB (what `xz --lzma2=dict=...` writes; the decoder reserves the
    # declared size): valid streams, the standard tool expands them, so must ReadCompressed
    import struct as _st
    base_xz = bytearray(lzma.compress(b"".join(b"line %d of a text stored with a large dictionary\n" % i for i in range(3000))))
    hs_ = (base_xz[12] + 1) * 4
    if base_xz[14] == 0x21 and base_xz[15] == 1:
        xops, xwant = [], lzma.decompress(bytes(base_xz))
        for props in (0x1c, 0x1e, 0x1f, 0x20, 0x21, 0x22, 0x24):          # 64 MiB, 128, 192, 256, 384, 512 MiB, 1 GiB
            y = bytearray(base_xz)
            y[16] = props
            y[12 + hs_ - 4:12 + hs_] = _st.pack("<I", zlib.crc32(bytes(y[12:12 + hs_ - 4])))
            px = subprocess.run(["xz", "-dc"], input=bytes(y), stdout=subprocess.PIPE, stderr=subprocess.PIPE)
            if px.returncode != 0 or px.stdout != xwant:
                continue                                  # not a stream the standard tool accepts here (memory): skip
            xops.append((props, f"z.read - 4096,100000 {hx(bytes(y))}"))
        xa = pvlib.run_lines(impl, [o for _, o in xops], env=pvlib.san_env(), timeout=600)
        ctx.count("z.read.xz-dict", len(xops), [o for _, o in xops])
        for (props, o), x in zip(xops, xa):
            xs = x.split()
            if xs[0] != "ok" or unhx(xs[1]) != xwant or "ERR:" in x:
                pvlib.report_violation(ctx, f"zread-xzdict:{props}", {"ops": [o[:3000]], "impl": x[:300], "lzma2_dict_props_byte": props},
                                       summary=f"ReadCompressed on a valid xz stream that declares a {2 ** (props // 2 + 12) * (2 + props % 2) // 2 >> 20} MiB dictionary: "
                                               f"{x[:60]} instead of the {len(xwant)} original bytes")
                break
    # ---------------- truncation seen through the line reader of a tool (FilePiece turns one kind of exception into "end of
    # input"): a truncated stream on stdin, as a regular file and as a pipe, must make the tool exit non-zero
    text = b"".join(b"line %d of the text that is compressed and then cut\n" % i for i in range(4000))
    for fmt in ("gz", "bz2", "xz"):
        blob = enc[fmt](text)
        cuts = sorted(set([12, len(blob) // 3, len(blob) // 2, len(blob) - 9, len(blob) - 1] + [rng.randrange(7, len(blob)) for _ in range(3 if ctx.tier == "quick" else 40)]))
        for k in cuts:
            for how in ("file", "pipe"):
                f = os.path.join(ctx.tmp, "trunc." + fmt)
                open(f, "wb").write(blob[:k])
                if how == "file":
                    st, out, err = pvlib.run_tool([ctx.bin("remove_long_lines"), "1000000"], env=pvlib.san_env(), stdin_file=f, timeout=60)
                else:
                    st, out, err = pvlib.run_tool([ctx.bin("remove_long_lines"), "1000000"], blob[:k], env=pvlib.san_env(), timeout=60)
                ctx.count("tool.truncated", 1, [(fmt, k, how)])
                if st == 0 or st == "HANG":
                    pvlib.report_violation(ctx, f"ztool-trunc:{fmt}:{k}:{how}", {"argv": ["remove_long_lines", "1000000"], "stdin_hex": hx(blob[:k])[:40000], "stdin": how,
                                           "format": fmt, "truncated_at": k, "of": len(blob), "status": st, "lines_out": out.count(b"\n"), "lines_in_full_stream": 4000},
                                           summary=f"remove_long_lines on a {fmt} stream truncated at byte {k} of {len(blob)} (stdin: {how}): "
                                                   f"{'hang' if st == 'HANG' else 'exit status 0'} with {out.count(10)} of 4000 lines written")
                    break
    # ---------------- GZCompress, bulk: semi-compressible bodies of 60..130 kB (warc_parallel -z compresses every record with it);
    # the buffer-edge cases (output position a few bytes short of a 4 KiB increment when the input runs out) come up about once
    # in 1500 bodies, so several thousand are tried, in parallel processes
    from concurrent.futures import ThreadPoolExecutor
    nproc, per = 16, (300 if ctx.tier == "quick" else 4000)
    gops = [f"z.gzcompressrand {ctx.seed * 100 + k} {per} 60000 200000" for k in range(nproc)]
    with ThreadPoolExecutor(max_workers=nproc) as ex:
        gres = list(ex.map(lambda o: pvlib.run_lines(impl, [o], env=pvlib.san_env(), timeout=3000, per_line_timeout=3000, stall=3000)[0], gops))
    ctx.count("z.gzcompressrand", len(gops), gops)
    ctx.cov["gzcompress_bulk_bodies"] = nproc * per
    for o, gzr in zip(gops, gres):
        if not gzr.startswith("ok "):
            pvlib.report_violation(ctx, "zgzcompress-bulk:" + o, {"ops": [o], "impl": gzr[:400]}, summary=f"GZCompress on pseudo-random text bodies ({o}): {gzr[:300]}")
            break
    # ---------------- GZCompress
    gops, gdata = [], []
    for n in [0, 1, 2, 100, 4000, 4090, 4096, 5000, 70000] + [rng.randrange(0, 70000) for _ in range(10 if ctx.tier == "quick" else 100)]:
        d = gen_data(rng, n)
        gops.append(f"z.gzcompress {hx(d)}")
        gdata.append(d)
    ga = pvlib.run_lines(impl, gops, env=pvlib.san_env(), timeout=600)
    ctx.count("z.gzcompress", len(gops), gops)
    for o, x, d in zip(gops, ga, gdata):
        ok = False
        if x.startswith("ok "):
            try:
                ok = gzip.decompress(unhx(x.split()[1])) == d
            except Exception:
                ok = False
        if not ok:
            pvlib.report_violation(ctx, "gzcompress:" + o[:80], {"ops": [o[:4000]], "impl": x[:200]}, summary=f"GZCompress of {len(d)} bytes does not round-trip")
            break


def replay(ctx, rp):
    impl = os.path.join(ctx.bdir, "harness", "implcompress")
    for o, x in zip(rp["ops"], pvlib.run_lines(impl, rp["ops"], env=pvlib.san_env(), timeout=60)):
        print(o[:200], "\n  ->", x[:600])
