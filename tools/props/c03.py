"""C03 — partial reads/writes and EINTR never change a tool's output."""
import itertools, os, shutil
import pvlib, toolset
from pvlib import hx

LEVEL = "proof"
RULE = ("(i) the real WriteOrThrow / PartialRead / ReadOrEOF / ReadOrThrow in-process with read(2)/write(2) interposed: every outcome "
        "script of length <= 5 (quick: 4) over {full, 1 byte, n-1 bytes, EINTR} plus hard errors, for several data lengths; result AND "
        "the sequence of request sizes issued must equal the Lean model's; (i') util::BufferedStream in-process over a recording Writer on write/operator<</flush sequences around the 8 KiB buffer: chunk "
        "sizes, flush count and bytes equal to the Lean model's; (ii) every executable with a standard invocation under an "
        "LD_PRELOAD shim that returns random short counts (five profiles, from occasionally short to every transfer 1 byte) and EINTR from read/write on all descriptors (stdin, stdout, shard files, "
        "child pipes), on the standard corpus, on its CRLF variant and (for five tools) on gzip (two members) / bzip2 / xz compressed stdin: stdout, output files and exit status must equal the fault-free run; runs in which no fault fired are not "
        "counted; non-trivial = distinct (tool, seed) with >= 1 fault fired, or distinct script")
ASSUMPTIONS = ["iostream-based tools (mmhsum, process_unicode, gigaword_unwrap, order_independent_hash output) rely on libstdc++'s own "
               "retry loops, exercised but not modelled", "input-side schedule independence of records is C02's theorem"]


def run(ctx):
    rng = ctx.rng
    impl = os.path.join(ctx.bdir, "harness", "implreader")
    ops = []
    L = 4 if ctx.tier == "quick" else 5
    for n in (0, 1, 2, 5, 9):
        data = bytes(range(65, 65 + n))
        alphabet = sorted(set(["100", "1", str(max(n - 1, 1)), "0"]))
        for k in range(0, L + 1):
            for t in itertools.product(alphabet, repeat=k):
                sc = ",".join(t) or "-"
                ops.append(f"io.write {sc} {hx(data)}")
                ops.append(f"io.readoreof {sc} {n + 2} {hx(data)}")
                ops.append(f"io.readorthrow {sc} {max(n - 1, 0)} {hx(data)}")
        for t in (["-28"], ["1", "-5"], ["0", "0", "-9"], ["2", "0", "-32"]):
            ops.append(f"io.write {','.join(t)} {hx(data)}")
            ops.append(f"io.readorthrow {','.join(t)} {n} {hx(data)}")
            ops.append(f"io.partialread {','.join(t)} {n + 1} {hx(data)}")
    ops = list(dict.fromkeys(ops))
    bad, a, b = pvlib.diff_streams(ctx, "io.loops", ops, impl_exe=impl)
    if bad:
        # property verdict: with a benign script the delivered/returned bytes must be the data
        viol = None
        for i, o, x, y in bad:
            w = o.split()
            benign = all(int(v) >= 0 for v in w[1].split(",")) if w[1] != "-" else True
            if benign and w[0] == "io.write" and not x.startswith("ok " + w[2] + " "):
                viol = (o, x, y)
                break
            if benign and w[0] in ("io.readoreof", "io.readorthrow"):
                # the bytes a read loop returns must be the source's first `amount` bytes, whatever the fragments (the model agrees with
                # that on this op, so the statement does not rest on how a script entry is interpreted)
                src = pvlib.unhx(w[3])[:int(w[2])]
                exp = "ok " + hx(src)
                if (y == exp or y.startswith(exp + " ")) and not (x == exp or x.startswith(exp + " ")):
                    viol = (o, x, y)
                    break
        if viol:
            o, x, y = viol
            pvlib.report_violation(ctx, "io:" + o, {"ops": [o], "impl": x, "model": y},
                                   summary=f"{o}: bytes " + ("handed to the OS differ from the data under short writes/EINTR" if o.startswith("io.write") else "returned by the read loop are not the source's bytes under short reads/EINTR") + f": {x}")
        else:
            i, o, x, y = bad[0]
            pvlib.report_violation(ctx, "corr:io.loops", {"ops": [q[1] for q in bad[:10]], "impl": x, "model": y,
                                   "correspondence": "PV.Io vs util/file.cc (result and syscall request sizes)"}, no_input=True,
                                   summary=f"{o}: impl {x} model {y}")
    # (i') BufferedStream (every tool's output buffer) in-process over a recording Writer: the chunks handed to the Writer
    # (sizes), the number of flushes and the bytes must be the Lean model's, for op sequences around the 8 KiB buffer
    bops = ["-", "f", "w0", "w8192", "w8193", "w1,w8192", "w8191,c,c", "w8190,u20,w5", "w5,w9000,w5", "w8192,w8192,f,w1", "w4000,w4193", "w4000,w4192,c",
            "w8173,u20", "w8172,u20,c", "w8173,u1", "w20000", "w1,w20000,c,f,f", "w8192,c,w8191,c,c"]
    sizes = [0, 1, 2, 19, 20, 21, 4096, 8171, 8172, 8173, 8190, 8191, 8192, 8193, 8194, 9000, 16384, 16385, 30000]
    for _ in range(400 if ctx.tier == "quick" else 6000):
        toks = []
        for _ in range(rng.randrange(1, 9)):
            r = rng.random()
            toks.append("w%d" % rng.choice(sizes) if r < 0.55 else "u%d" % rng.randrange(1, 21) if r < 0.75 else "c" if r < 0.9 else "f")
        bops.append(",".join(toks))
    bops = ["bstream.run " + t for t in dict.fromkeys(bops)]
    bbad, ba_, bb_ = pvlib.diff_streams(ctx, "bstream.run", bops, impl_exe=os.path.join(ctx.bdir, "harness", "implfmt"))
    if bbad:
        i, o, x, y = sorted(bbad, key=lambda q: len(q[1]))[0]
        if "BYTES-DIFFER" in x or not x.startswith("ok "):
            pvlib.report_violation(ctx, "bstream:" + o, {"ops": [o], "impl": x, "model": y},
                                   summary=f"{o}: the Writer did not receive the bytes written to the BufferedStream, in order ({x}; model {y})")
        else:
            pvlib.report_violation(ctx, "corr:bstream.run", {"ops": [q[1] for q in bbad[:10]], "impl": x, "model": y,
                                   "correspondence": "PV.BufStream.step vs util::BufferedStream (chunk sizes, flushes)"}, no_input=True,
                                   summary=f"{o}: impl {x} model {y}")
    # (ii) tools under the fault shim
    shim = os.path.join(ctx.bdir, "harness", "faults_preload.so")
    fired_total, counted, skipped = 0, 0, 0
    nseeds = 5 if ctx.tier == "quick" else 25
    # fault profiles (short%, EINTR%, largest short count): drawing the short count from 1..count-1 hardly ever shortens a
    # 64 KiB request on a few KiB of input, so most profiles bound it and fire almost always, which cuts the whole
    # input into 1..n byte transfers and puts a transfer boundary at (nearly) every byte position
    profiles = [(40, 25, None), (97, 2, 1), (95, 3, 3), (90, 5, 17), (60, 20, 4096)]
    invs = toolset.invocations(ctx.tmp, rng, 300)
    # the same corpus with CRLF line ends (a boundary between the CR and the LF is its own case in ReadLine)
    invs += [(label + "-crlf", tool, args, stdin.replace(b"\r\n", b"\n").replace(b"\n", b"\r\n"), outs)
             for (label, tool, args, stdin, outs) in invs if not label.startswith("warc_parallel")]
    # compressed stdin (the magic-number probe and the decompressors' refills go through the same retry loops);
    # two-member gzip so that a member boundary is crossed as well
    import gzip as _gz, bz2 as _bz2, lzma as _lzma
    base = {label: (tool, args, stdin, outs) for (label, tool, args, stdin, outs) in invs}
    for label in ("dedupe", "remove_long_lines", "cache", "shard", "warc_parallel"):
        tool, args, stdin, outs = base[label]
        half = len(stdin) // 2
        invs.append((label + "-gz", tool, args, _gz.compress(stdin[:half]) + _gz.compress(stdin[half:]), outs))
        invs.append((label + "-bz2", tool, args, _bz2.compress(stdin), outs))
        invs.append((label + "-xz", tool, args, _lzma.compress(stdin), outs))
    for (label, tool, args, stdin, outs) in invs:
        for f in outs:
            if os.path.exists(f):
                os.unlink(f)
        st0, out0, err0 = pvlib.run_tool([ctx.bin(tool)] + args, stdin, env=pvlib.san_env(), timeout=60)
        files0 = [open(f, "rb").read() if os.path.exists(f) else None for f in outs]
        for s in range(nseeds):
            seed = ctx.seed * 1000 + s
            rep = os.path.join(ctx.tmp, "fault_report.txt")
            if os.path.exists(rep):
                os.unlink(rep)
            for f in outs:
                if os.path.exists(f):
                    os.unlink(f)
            ps, pe, ms = profiles[s % len(profiles)]
            fenv = {"PV_FAULT_RANDOM": f"{seed}:{ps}:{pe}"}
            if ms:
                fenv["PV_FAULT_MAXSHORT"] = str(ms)
            env = pvlib.san_env(dict(fenv, LD_PRELOAD=shim, PV_FAULT_REPORT=rep))
            env["ASAN_OPTIONS"] += ":verify_asan_link_order=0"
            st, out, err = pvlib.run_tool([ctx.bin(tool)] + args, stdin, env=env, timeout=120)
            fired = 0
            if os.path.exists(rep):
                for ln in open(rep):
                    if "fired=" in ln:
                        fired += int(ln.split("fired=")[1])
            if fired == 0:
                skipped += 1
                continue
            fired_total += fired
            counted += 1
            ctx.count("tool-under-faults", 1, [(label, seed)])
            files = [open(f, "rb").read() if os.path.exists(f) else None for f in outs]
            same = (st == st0 and files == files0 and (out == out0 or label.startswith("warc_parallel") and sorted(out.split(b"WARC/1.0")) == sorted(out0.split(b"WARC/1.0"))))
            if not same:
                what = "exit status" if st != st0 else ("an output file" if files != files0 else "stdout")
                pvlib.report_violation(ctx, f"faults:{label}:{seed}", {"argv": [tool] + args, "stdin_hex": hx(stdin)[:20000], "env": fenv,
                                       "status": [st0, st], "faults_fired": fired, "stdout_len": [len(out0), len(out)],
                                       "stderr": err.decode(errors="replace")[-400:]},
                                       summary=f"{label}: {what} differs from the fault-free run under short reads/writes and EINTR "
                                               f"({fenv}, {fired} faults fired; status {st0} -> {st})")
                break
    ctx.cov["faults_fired_total"] = fired_total
    ctx.cov["tool_runs_counted"] = counted
    ctx.cov["tool_runs_without_fault_not_counted"] = skipped


def replay(ctx, rp):
    if "ops" in rp:
        impl = os.path.join(ctx.bdir, "harness", "implreader")
        a = pvlib.run_lines(impl, rp["ops"], env=pvlib.san_env())
        b = pvlib.run_lines(pvlib.PVDRIVER, rp["ops"])
        for o, x, y in zip(rp["ops"], a, b):
            print(f"{o}\n  impl : {x}\n  model: {y}")
    if "argv" in rp:
        shim = os.path.join(ctx.bdir, "harness", "faults_preload.so")
        env = pvlib.san_env(dict(rp.get("env", {}), LD_PRELOAD=shim))
        env["ASAN_OPTIONS"] += ":verify_asan_link_order=0"
        st, out, err = pvlib.run_tool([ctx.bin(rp["argv"][0])] + rp["argv"][1:], pvlib.unhx(rp["stdin_hex"]), env=env)
        print("status", st, "stdout bytes", len(out), err[-500:])
