"""C12 — UTF-8 validation accepts exactly well-formed UTF-8.
Tie: real util::DecodeUTF8 / util::IsUTF8 (in-process, ASan) and bin/remove_invalid_utf8 against the
Lean model; oracle = PV.Spec.Utf8 (Table 3-7 + Table 3-6 arithmetic)."""
import itertools, os
import pvlib
from pvlib import hx

LEVEL = "proof"
RULE = ("windows: all 1- and 2-byte windows; 3-/4-byte windows = all 256 lead bytes x continuation bytes from the "
        "boundary set (quick) or all 2^24 three-byte windows + viable-prefix four-byte windows (thorough); every "
        "window also truncated to each shorter length and extended by one byte; composed strings: seeded random "
        "concatenations of valid sequences with single-byte mutations; a case is non-trivial if it is a distinct "
        "window/string (all are distinct by construction; counted after de-duplication); the real iterator at the front of texts of "
        "2^31..3*2^32+5 bytes (sparse mapping), judged through the theorem decode_window; thorough: IsUTF8 over 2^32+k bytes")
ASSUMPTIONS = ["model transcribes util/utf8.hh by hand (tied by this differential run)",
               "bin/remove_invalid_utf8 reads lines through the C02 reader (CR before LF stripped)"]

BOUND = [0x00, 0x7F, 0x80, 0x8F, 0x90, 0x9F, 0xA0, 0xBF, 0xC0, 0xED, 0xF4, 0xFF]


def windows(tier, rng):
    for a in range(256):
        yield bytes([a])
    for a in range(256):
        for b in range(256):
            yield bytes([a, b])
    if tier == "quick":
        for a in range(256):
            for b in BOUND:
                for c in BOUND:
                    yield bytes([a, b, c])
        for a in range(0xC0, 256):
            for b in BOUND:
                for c in BOUND:
                    for d in BOUND:
                        yield bytes([a, b, c, d])
        # all second bytes for the interesting leads with boundary tails
        for a in (0xE0, 0xED, 0xEF, 0xF0, 0xF4, 0xF5):
            for b in range(256):
                for c in (0x7F, 0x80, 0xBF, 0xC0):
                    yield bytes([a, b, c])
                    yield bytes([a, b, c, 0x80])
                    yield bytes([a, b, c, 0xC0])
    else:
        for a in range(0x80, 256):           # ASCII leads are covered by the 1-/2-byte windows
            for b in range(256):
                for c in range(256):
                    yield bytes([a, b, c])
        for a in range(0xF0, 0xF8):
            for b in range(0x80, 0xC0):
                for c in range(0, 256, 1):
                    for d in BOUND + [0x81, 0xBE]:
                        yield bytes([a, b, c, d])


def rand_valid_cp(rng):
    r = rng.random()
    if r < 0.3:
        return rng.randrange(0x80)
    if r < 0.5:
        return rng.randrange(0x80, 0x800)
    if r < 0.8:
        c = rng.randrange(0x800, 0x10000)
        return c if not (0xD800 <= c < 0xE000) else 0xE000
    return rng.randrange(0x10000, 0x110000)


def composed(rng, n):
    edge = [0x7F, 0x80, 0x7FF, 0x800, 0xD7FF, 0xE000, 0xFFFF, 0x10000, 0x10FFFF]
    for _ in range(n):
        k = rng.randrange(0, 12)
        s = "".join(chr(rng.choice(edge) if rng.random() < 0.3 else rand_valid_cp(rng)) for _ in range(k)).encode("utf-8")
        m = rng.random()
        b = bytearray(s)
        if m < 0.5 and b:
            i = rng.randrange(len(b))
            ch = rng.random()
            if ch < 0.4:
                b[i] = rng.choice(BOUND)
            elif ch < 0.7:
                del b[i]
            else:
                b.insert(i, rng.choice([0x80, 0xBF, 0xC0, 0xED, 0xF4, 0xFF, 0xC1]))
        yield bytes(b)


def oracle_lines(ctx, ops):
    """ask the spec (Lean) for the right answer to each op"""
    spec_ops = [o.replace("utf8.decode", "utf8.spec.decode").replace("utf8.isutf8", "utf8.spec.isutf8") for o in ops]
    return pvlib.run_lines(pvlib.PVDRIVER, spec_ops)


def judge(ctx, unit, bad):
    """bad: list of (i, op, impl, model).  Decide violation vs. correspondence break."""
    if not bad:
        return
    ops = [b[1] for b in bad[:2000]]
    spec = oracle_lines(ctx, ops)
    viol = [(b, s) for b, s in zip(bad, spec) if b[2] != s]
    if viol:
        # smallest input first
        viol.sort(key=lambda v: len(v[0][1]))
        (i, op, impl, model), s = viol[0]
        pvlib.report_violation(ctx, "utf8:" + op.split()[-1], {"ops": [op], "impl": impl, "model": model, "spec": s,
                               "more": [v[0][1] for v in viol[1:20]]},
                               summary=f"{op} -> implementation {impl}, specification (Unicode Table 3-6/3-7) {s}")
    else:
        (i, op, impl, model) = bad[0]
        pvlib.report_violation(ctx, "corr:" + unit, {"ops": [b[1] for b in bad[:20]], "impl": impl, "model": model,
                               "correspondence": "PV.Utf8.decode / isUTF8 vs util/utf8.hh",
                               "explanation": "implementation agrees with the specification on every disagreeing case "
                               "but no longer behaves like the model the theorems are about"},
                               no_input=True, summary=f"model/impl correspondence broken at {op}: impl {impl} model {model}")


def run(ctx):
    rng = ctx.rng
    # 1. windows, each with truncations and one extension
    seen = set()
    ops = []
    for w in windows(ctx.tier, rng):
        for k in range(1, len(w) + 1):
            p = w[:k]
            if p not in seen:
                seen.add(p)
                ops.append("utf8.decode " + hx(p))
    ext = []
    for w in itertools.islice(iter(seen), 0, 200000):
        if len(w) <= 3:
            ext.append("utf8.decode " + hx(w + b"\x80"))
            ext.append("utf8.decode " + hx(w + b"A"))
    ops += ext
    # every second byte of the four-byte forms (all planes, every 4096-block of each) with the third byte on both sides of bit 5
    for b0 in range(0xF0, 0xF5):
        for b1 in range(0x80, 0xC0):
            for b2 in (0x80, 0x9F, 0xA0, 0xBF):
                for b3 in (0x80, 0xBF):
                    ops.append("utf8.decode " + hx(bytes([b0, b1, b2, b3])))
    bad, a, b = pvlib.diff_streams(ctx, "utf8.decode", ops)
    ctx.cov["decode_accepting"] = sum(1 for x in a if x.startswith("ok"))
    ctx.cov["decode_rejecting"] = sum(1 for x in a if x.startswith("ERR"))
    judge(ctx, "utf8.decode", bad)
    # 2. composed strings through IsUTF8
    n = 20000 if ctx.tier == "quick" else 400000
    strs = list(dict.fromkeys(composed(rng, n)))
    ops2 = ["utf8.isutf8 " + hx(s) for s in strs]
    ops2 += ["utf8.isutf8 " + hx(w) for w in itertools.islice(iter(seen), 0, 70000)]
    # mostly-ASCII strings with one or two ill-formed bytes at every position, at every address modulo 8 (the verdict
    # may not depend on where the bytes sit in memory: word-at-a-time / vectorised scanning)
    asc = b"The quick brown fox jumps over the lazy dog 0123456789"
    for L in list(range(1, 27)) + [31, 32, 33, 40, 48]:
        for pos in range(L):
            for al in range(8):
                if ctx.tier == "quick" and L > 18 and (pos + al + L) % 3:
                    continue
                for bad_byte in (0xE9, 0x80, 0xFF):
                    b = bytearray(asc[:L])
                    b[pos] = bad_byte
                    ops2.append(f"utf8.isutf8 {hx(bytes(b))} {al}")
                if pos + 8 < L:
                    b = bytearray(asc[:L])
                    b[pos] = 0xC3
                    b[pos + 8] = 0xA9          # two bytes one word apart: lead without trail, trail without lead
                    ops2.append(f"utf8.isutf8 {hx(bytes(b))} {al}")
    ops2 += [f"utf8.isutf8 {hx(s)} {rng.randrange(8)}" for s in strs[:3000] if s]
    # a code point whose VALUE is special inside the decoder (U+FFFD is its error marker; U+0000, U+FFFE/F, U+10FFFF, U+FEFF)
    # followed / preceded by each kind of ill-formed sequence
    specials = [0xFFFD, 0, 0xFFFE, 0xFFFF, 0x10FFFF, 0xFEFF, 0xD7FF, 0xE000]
    junk = [b"\xff", b"\x80", b"\xc3", b"\xe2\x82", b"\xed\xa0\x80", b"\xe0\x80\x80", b"\xf4\x90\x80\x80", b"\xc0\xaf"]
    for cp in specials:
        c = chr(cp).encode("utf-8")
        for j in junk:
            for t in (c + j, c + b"ok " + j, b"x" + c + j + b"y", j + c, c + c + j, c, b"caf\xc3\xa9 " + c + b" " + j + b" tail"):
                ops2.append(f"utf8.isutf8 {hx(t)} {rng.randrange(8)}")
    bad2, a2, b2 = pvlib.diff_streams(ctx, "utf8.isutf8", ops2)
    ctx.cov["isutf8_true"] = sum(1 for x in a2 if x == "true")
    ctx.cov["isutf8_false"] = sum(1 for x in a2 if x == "false")
    judge(ctx, "utf8.isutf8", bad2)
    # 2b. the real iterator at the front of texts of 2^32 bytes and more (sizes whose low 32 bits are 0..5, and just below 2^32):
    #     the given bytes followed by NULs in a lazily committed mapping.  By PV.Props.C12.decode_window the answer is the one for
    #     the first four bytes, which is what the model/spec side computes.
    fronts = [b"A", b"\xc3\xa9", b"\xe2\x82\xac", b"\xf0\x9f\x98\x80", b"\xef\xbf\xbd", b"\xf4\x8f\xbf\xbf", b"\xdf\xbf", b"\xe0\xa0\x80",
              b"\xc3", b"\xe2\x82", b"\xf0\x9f\x98", b"\xc0\xaf", b"\xed\xa0\x80", b"\xf4\x90\x80\x80", b"\x80", b"\xff", b"\xe2\x82\xacxyz", b"\xc3\xa9\xc3"]
    sizes = [(1 << 32) * m + k for m in (1, 2, 3) for k in range(0, 6)] + [(1 << 32) - k for k in range(1, 5)] + [(1 << 31) + k for k in range(0, 4)]
    ops3 = [f"utf8.iterhuge {n} {hx(f)}" for n in sizes for f in fronts]
    bad3, a3, b3 = pvlib.diff_streams(ctx, "utf8.iterhuge", ops3)
    ctx.cov["iterhuge_skipped"] = sum(1 for x in a3 if x.startswith("skipped"))
    bad3 = [t for t in bad3 if not t[2].startswith("skipped")]
    if bad3:
        spec3 = pvlib.run_lines(pvlib.PVDRIVER, [t[1].replace("utf8.iterhuge", "utf8.spec.iterhuge") for t in bad3])
        viol = [(t, s_) for t, s_ in zip(bad3, spec3) if t[2] != s_]
        if viol:
            (i, op, impl, model), s_ = viol[0]
            n_ = int(op.split()[1])
            pvlib.report_violation(ctx, "utf8-huge:" + op, {"ops": [op], "impl": impl, "model": model, "spec": s_, "more": [v[0][1] for v in viol[1:20]],
                                   "text": f"{n_} bytes = 2^32*{n_ >> 32} + {n_ & 0xffffffff}: the bytes {op.split()[2]} followed by NULs"},
                                   summary=f"DecodeUTF8Iterator at the front of a {n_}-byte text (2^32*{n_ >> 32} + {n_ & 0xffffffff}) that begins {op.split()[2]}: "
                                           f"implementation {impl}, specification {s_}")
        else:
            (i, op, impl, model) = bad3[0]
            pvlib.report_violation(ctx, "corr:utf8.iterhuge", {"ops": [b_[1] for b_ in bad3[:20]], "impl": impl, "model": model,
                                   "correspondence": "PV.Utf8.decode on the first four bytes vs DecodeUTF8Iterator on a huge text"}, no_input=True,
                                   summary=f"model/impl correspondence broken at {op}: impl {impl} model {model}")
    if ctx.tier != "quick":
        # the whole-text verdict on 2^32+k bytes (a full scan of 2^32 NULs: thorough tier only); a well-formed front followed by NULs is
        # well-formed (decodeAll_iff), an ill-formed front is not
        for n, f, want in (((1 << 32) + 2, b"\xe2\x82\xac", "ok 8364 3 true"), ((1 << 32) + 1, b"\xc3\xa9", "ok 233 2 true"), ((1 << 32) + 3, b"\xc0\xaf", "ERR:notutf8 false")):
            op = f"utf8.iterhuge {n} {hx(f)} scan"
            got = pvlib.run_lines(ctx.impl(), [op], env=pvlib.san_env(), timeout=1200, stall=1200)[0]
            ctx.count("utf8.iterhuge.scan", 1, [op])
            if got != want and not got.startswith("skipped"):
                pvlib.report_violation(ctx, "utf8-huge-scan:" + op, {"ops": [op], "impl": got, "spec": want},
                                       summary=f"IsUTF8 on a {n}-byte text that begins {hx(f)} and continues with NULs: {got}, specification {want}")
                break
    # 3. the tool: remove_invalid_utf8 keeps exactly the well-formed lines, unchanged
    lines = [s for s in strs if b"\n" not in s and not s.endswith(b"\r")][:5000]
    # single stray bytes in ASCII lines at every offset of the reader's buffer modulo 8 (padding lines shift the offset)
    for cp in (0xFFFD, 0xFFFE, 0x10FFFF, 0xFEFF):
        c = chr(cp).encode("utf-8")
        lines += [c + b" then a stray byte \xff", b"x" + c + b"\x80", c + b"\xc3", c + b" fine", c]
    for i in range(600 if ctx.tier == "quick" else 6000):
        lines.append(b"p" * rng.randrange(0, 9))
        b = bytearray(asc[:rng.randrange(1, 40)])
        b[rng.randrange(len(b))] = rng.choice([0xE9, 0x80, 0xFF, 0xC3])
        lines.append(bytes(b))
    st, out, err = pvlib.run_tool([ctx.bin("remove_invalid_utf8")], b"".join(l + b"\n" for l in lines),
                                  env=pvlib.san_env())
    spec = pvlib.run_lines(pvlib.PVDRIVER, ["utf8.spec.isutf8 " + hx(l) for l in lines])
    want = b"".join(l + b"\n" for l, s in zip(lines, spec) if s == "true")
    ctx.count("remove_invalid_utf8", len(lines), lines)
    if st != 0 or out != want:
        # find first differing line
        got_lines = out.split(b"\n")
        want_lines = want.split(b"\n")
        k = next((i for i, (x, y) in enumerate(zip(got_lines, want_lines)) if x != y), min(len(got_lines), len(want_lines)))
        pvlib.report_violation(ctx, "tool:remove_invalid_utf8", {
            "argv": ["remove_invalid_utf8"], "stdin_hex": hx(b"".join(l + b"\n" for l in lines)), "status": st,
            "first_diff_line": k, "got": hx(got_lines[k] if k < len(got_lines) else b""),
            "want": hx(want_lines[k] if k < len(want_lines) else b""), "stderr": err.decode(errors="replace")[-500:]},
            summary=f"remove_invalid_utf8 output differs from the well-formed subsequence at output line {k} (status {st})")

    # 3b. line ends: CRLF lines and a last line without terminator, via pipe and regular file, arriving in one piece and in two
    #     (the bytes behind a line in the reader's buffer are not part of it)
    good_ = ["abc", "h\u00e9llo", "", "\u20ac 5", "end"]
    for eol in (b"\n", b"\r\n"):
        for last_nl in (True, False):
            body = eol.join(g.encode() for g in good_) + (eol if last_nl else b"")
            want_ = b"".join(g.encode() + b"\n" for g in good_)
            filler = b"".join(b"\xc3\xa9" * 40 + b"\n" for _ in range(30))      # earlier, longer data leaves high bytes behind in the buffer
            for back in ("pipe", "file", "after-filler"):
                if back == "file":
                    f_ = os.path.join(ctx.tmp, "eol.txt")
                    open(f_, "wb").write(body)
                    st, out, err = pvlib.run_tool([ctx.bin("remove_invalid_utf8")], env=pvlib.san_env(), stdin_file=f_)
                    w_ = want_
                elif back == "pipe":
                    st, out, err = pvlib.run_tool([ctx.bin("remove_invalid_utf8")], body, env=pvlib.san_env())
                    w_ = want_
                else:
                    st, out, err = pvlib.run_tool([ctx.bin("remove_invalid_utf8")], filler + body, env=pvlib.san_env())
                    w_ = filler + want_
                ctx.count("remove_invalid_utf8.line-ends", 1, [(eol, last_nl, back)])
                if st != 0 or out != w_:
                    pvlib.report_violation(ctx, f"tool:remove_invalid_utf8-eol:{hx(eol)}:{last_nl}:{back}", {"argv": ["remove_invalid_utf8"], "stdin_hex": hx((filler if back == "after-filler" else b"") + body)[:6000],
                                           "backing": back, "status": st, "got_tail": hx(out[-60:]), "want_tail": hx(w_[-60:])},
                                           summary=f"remove_invalid_utf8 ({back}) on well-formed lines ending in {eol!r}{'' if last_nl else ', the last one unterminated'}: output ends {out[-30:]!r}, expected {w_[-30:]!r} (status {st})")
                    return
    # 4. the other tools that promise well-formed output: nothing ill-formed may come out of commoncrawl_dedupe, and no piece that
    #    foldfilter hands to its child may be ill-formed, whatever the width (lines shorter than, equal to and longer than it)
    ill = [b"caf\xe9 cr\xe8me", b"tail \xc3", b"\x80 stray", b"over\xc0\xaflong", b"sur\xed\xa0\x80rogate", b"big \xf4\x90\x80\x80", b"\xff", b"ok then \xe2\x82"]
    good = [b"fine", "h\u00e9llo w\u00f6rld".encode(), "\u20ac 5".encode(), b""]
    st, out, err = pvlib.run_tool([ctx.bin("commoncrawl_dedupe")], b"".join(l + b"\n" for l in good + ill + lines[:3000]), env=pvlib.san_env(), timeout=60)
    olines = out.split(b"\n")[:-1]
    osp = pvlib.run_lines(pvlib.PVDRIVER, ["utf8.spec.isutf8 " + hx(l) for l in olines])
    ctx.count("commoncrawl_dedupe.output-wellformed", len(olines), olines)
    badl = [l for l, v in zip(olines, osp) if v != "true"]
    if st != 0 or badl:
        pvlib.report_violation(ctx, "tool:commoncrawl_dedupe-illformed", {"argv": ["commoncrawl_dedupe"], "stdin_hex": hx(b"".join(l + b"\n" for l in good + ill))[:4000], "status": st,
                               "ill_formed_output_lines": [hx(x) for x in badl[:5]]},
                               summary=f"commoncrawl_dedupe wrote the ill-formed line {badl[0][:40]!r}" if badl else f"commoncrawl_dedupe: status {st}")
    log = os.path.join(ctx.tmp, "pieces.log")
    for width in (4, 20, 80):
        for bad_line in ill + [b"x" * (width - 2) + b"\xff", b"x" * (width - 1) + b"\xff", b"x" * width + b"\xff", b"word " * 40 + b"\xe9"]:
            for sflag in ([], ["-s"]):
                if os.path.exists(log):
                    os.unlink(log)
                data = b"fine\n" + bad_line + b"\nlast\n"
                st, out, err = pvlib.run_tool([ctx.bin("foldfilter"), "-w", str(width)] + sflag + ["tee", log], data, env=pvlib.san_env(), timeout=30)
                pieces = open(log, "rb").read().split(b"\n")[:-1] if os.path.exists(log) else []
                ctx.count("foldfilter.pieces-wellformed", 1, [(width, bad_line, tuple(sflag))])
                if not pieces:
                    continue
                psp = pvlib.run_lines(pvlib.PVDRIVER, ["utf8.spec.isutf8 " + hx(p_) for p_ in pieces])
                badp = [p_ for p_, v in zip(pieces, psp) if v != "true"]
                if badp:
                    pvlib.report_violation(ctx, f"tool:foldfilter-illformed-piece:{width}:{hx(bad_line)[:40]}", {"argv": ["foldfilter", "-w", str(width)] + sflag + ["tee", "LOG"], "stdin_hex": hx(data),
                                           "status": st, "ill_formed_pieces": [hx(x) for x in badp[:5]]},
                                           summary=f"foldfilter -w {width} {' '.join(sflag)} handed the ill-formed piece {badp[0][:40]!r} to its child (input line of {len(bad_line)} bytes, exit status {st})")
                    return


def search(ctx, broken):
    """proof broke but the quick domain found nothing: widen."""
    rng = ctx.rng
    ops = []
    for _ in range(300000):
        n = rng.randrange(1, 5)
        w = bytes([rng.choice([0xC2, 0xDF, 0xE0, 0xE1, 0xED, 0xEF, 0xF0, 0xF1, 0xF4, rng.randrange(256)])] +
                  [rng.randrange(0x70, 0xD0) for _ in range(n - 1)])
        ops.append("utf8.decode " + hx(w))
    ops = list(dict.fromkeys(ops))
    bad, a, b = pvlib.diff_streams(ctx, "utf8.decode.search", ops)
    judge(ctx, "utf8.decode", bad)
    # also judge the implementation against the spec directly (model may be the broken part)
    spec = oracle_lines(ctx, ops)
    for op, x, s in zip(ops, a, spec):
        if x != s:
            pvlib.report_violation(ctx, "utf8:" + op.split()[-1], {"ops": [op], "impl": x, "spec": s},
                                   summary=f"{op} -> implementation {x}, specification {s}")
            break


def replay(ctx, rp):
    if "ops" in rp:
        ops = rp["ops"]
        a = pvlib.run_lines(ctx.impl(), ops, env=pvlib.san_env())
        b = pvlib.run_lines(pvlib.PVDRIVER, ops)
        s = oracle_lines(ctx, ops)
        for o, x, y, z in zip(ops, a, b, s):
            print(f"{o}\n  impl : {x}\n  model: {y}\n  spec : {z}")
    if "argv" in rp:
        st, out, err = pvlib.run_tool([ctx.bin(rp["argv"][0])] + rp["argv"][1:], pvlib.unhx(rp["stdin_hex"]),
                                      env=pvlib.san_env())
        print("status", st, "stdout", out[:2000])
