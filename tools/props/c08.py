"""C08 — b64filter preserves document boundaries and content around the child."""
import os, base64, itertools
import pvlib
from pvlib import hx, unhx

LEVEL = "proof"
RULE = ("real bin/b64filter with children cat / tr a-z A-Z / sed s/^/X/: documents exhaustive over {a, \\n, \\r, \\0} up to "
        "length 4 (quick) / 5 (thorough) as single-document inputs, sequences of up to 4 documents over a 7-document subset, "
        "seeded random large documents, padded and unpadded base64; oracle = the property (output line i decodes to the child's "
        "answer for exactly document i's lines); non-trivial = distinct (child, input)")
ASSUMPTIONS = ["model transcribes b64filter_main.cc by hand; the codec is the C09 model; the child is a function on line sequences",
               "children are line-preserving (cat, tr, sed)"]

CHILDREN = {"id": ["cat"], "upper": ["tr", "a-z", "A-Z"], "prefix": ["sed", "s/^/X/"]}


def child_py(name, line):
    if name == "id":
        return line
    if name == "upper":
        return bytes(b - 32 if 97 <= b <= 122 else b for b in line)
    return b"X" + line


def expected(name, docs):
    """the property, computed independently: per document, apply the child to its lines."""
    out = []
    for d in docs:
        trailing = d.endswith(b"\n")
        body = d if trailing else d + b"\n"
        lines = body.split(b"\n")[:-1]
        res = b"\n".join(child_py(name, l) for l in lines) + (b"\n" if trailing else b"")
        out.append(base64.b64encode(res))
    return b"".join(o + b"\n" for o in out)


def run(ctx):
    # b64filter hands every document to base64_decode and every answer to base64_encode: documents of 2^31 bytes and more
    huge = pvlib.HugeB64(ctx).start()
    try:
        run_small(ctx)
    finally:
        huge.finish("b64filter-document-codec-huge")


def run_small(ctx):
    rng = ctx.rng
    alph = [b"a", b"\n", b"\r", b"\0"]
    singles = []
    for n in range(0, (4 if ctx.tier == "quick" else 5) + 1):
        for t in itertools.product(alph, repeat=n):
            singles.append(b"".join(t))
    subset = [b"", b"a", b"a\n", b"\n\n", b"a\r\nb", b"\r", b"a\nb\n"]
    cases = [[d] for d in singles]
    for n in (2, 3, 4):
        seqs = list(itertools.product(subset, repeat=n))
        rng.shuffle(seqs)
        cases += [list(t) for t in seqs[:(60 if ctx.tier == "quick" else 600)]]
    for _ in range(20 if ctx.tier == "quick" else 200):
        k = rng.randrange(1, 6)
        docs = []
        for _ in range(k):
            n = rng.choice([0, 1, 100, 5000, rng.randrange(0, 70000)])
            docs.append(bytes(rng.choice(b"ab \n\n\r\x00\xff\xc3\xa9") for _ in range(n)))
        cases.append(docs)
    # an empty document after a long one: the decoded-document buffer then lives on the heap
    cases.append([b"x" * 100, b""])
    cases.append([b"x" * 100 + b"\n", b"", b"", b"y"])
    nrun = 0
    for docs in cases:
        for name in (["id", "upper", "prefix"] if len(docs) > 1 or len(docs[0]) <= 3 else ["id"]):
            unp = rng.random() < 0.3
            data = b"".join((base64.b64encode(d).rstrip(b"=") if unp else base64.b64encode(d)) + b"\n" for d in docs)
            st, out, err = pvlib.run_tool([ctx.bin("b64filter")] + CHILDREN[name], data, env=pvlib.san_env(), timeout=60)
            nrun += 1
            ctx.count("b64filter", 1, [(name, data)])
            want = expected(name, docs)
            san = pvlib.san_kind(err)
            if st != 0 or out != want or san:
                gl, wl = out.split(b"\n"), want.split(b"\n")
                k = next((i for i, (p, q) in enumerate(zip(gl, wl)) if p != q), min(len(gl), len(wl)))
                pvlib.report_violation(ctx, f"b64filter:{name}:" + hx(data)[:80], {
                    "argv": ["b64filter"] + CHILDREN[name], "stdin_hex": hx(data), "documents": [hx(d) for d in docs], "status": st,
                    "sanitizer": san, "doc_index": k, "got_line": gl[k].decode(errors="replace") if k < len(gl) else None,
                    "want_line": wl[k].decode() if k < len(wl) else None, "stderr": err.decode(errors="replace")[-600:]},
                    summary=f"b64filter {' '.join(CHILDREN[name])} on documents {docs[:3]!r}: status {st} {san or ''}; document {k}: "
                            f"got {gl[k][:40] if k < len(gl) else None!r} want {wl[k][:40] if k < len(wl) else None!r}")
                if len([v for v in ctx.violations]) >= 4:
                    return
                continue
            if len(data) < 3000:
                m = pvlib.run_lines(pvlib.PVDRIVER, [f"b64f.run {name} {hx(data)}"])[0]
                if m != "ok " + hx(out):
                    pvlib.report_violation(ctx, "corr:b64f.run", {"ops": [f"b64f.run {name} {hx(data)}"], "impl": hx(out), "model": m,
                                           "correspondence": "PV.B64filter.run vs bin/b64filter"}, no_input=True,
                                           summary=f"b64filter model/impl differ for child {name} on {docs[:3]!r}")
                    return
    # one document larger than everything that can be in flight (both pipes plus the child's buffer), first / middle / last
    for label, docs_ in (("a 4 MB document in the middle", [b"a\n", b"", b"x" * 19] + [bytes(97 + (i * 7) % 26 if i % 61 else 10 for i in range(4 << 20))] + [b"b\n", b""]),
                         ("a 2 MB document first", [bytes(97 + (i * 5) % 26 if i % 73 else 10 for i in range(2 << 20))] + [b"tail\n"]),
                         ("a 2 MB document last", [b"head\n", b""] + [bytes(97 + (i * 3) % 26 if i % 79 else 10 for i in range(2 << 20))])):
        import wrappers
        data = b"".join(base64.b64encode(d) + b"\n" for d in docs_)
        st, out, err, trace = wrappers.run_traced(ctx, ["b64filter"], data, ["eager"], timeout=90)
        ctx.count("b64filter.large", 1, [label])
        if st != 0 or out != data:
            pvlib.report_violation(ctx, "b64filter-large:" + label, {"argv": ["b64filter", "python3", "harness/children/child.py", "eager"], "generator": label,
                                   "document_sizes": [len(d) for d in docs_], "status": st, "lines_out": out.count(b"\n"), "stderr": err.decode(errors="replace")[-300:]},
                                   summary=f"b64filter with an identity child on {label}: " + ("did not finish within 90 s" if st == "HANG" else f"status {st}") +
                                           f", {out.count(10)} of {len(docs_)} lines out")
            break
    # documents are arbitrary bytes: the FIRST document may itself be a compressed file (its bytes, and so the child's output,
    # begin with a gzip / bzip2 / xz magic number)
    import gzip as _gz, bz2 as _bz2, lzma as _lz
    for label, first in (("gzip", _gz.compress(b"payload\n")), ("bzip2", _bz2.compress(b"payload\n")), ("xz", _lz.compress(b"payload\n"))):
        docs_ = [first, b"second\n"]
        data = b"".join(base64.b64encode(d) + b"\n" for d in docs_)
        st, out, err = pvlib.run_tool([ctx.bin("b64filter"), "cat"], data, env=pvlib.san_env(), timeout=30)
        ctx.count("b64filter.magic-first", 1, [label])
        if st != 0 or out != data:
            pvlib.report_violation(ctx, "b64filter-first-document-is-" + label, {"argv": ["b64filter", "cat"], "stdin_hex": hx(data), "status": st,
                                   "stderr": err.decode(errors="replace")[-300:]},
                                   summary=f"b64filter cat when the first document is a {label} file: status {st}, output {'differs' if out != data else 'equal'} "
                                           f"(the reader of the child's output sniffs compression magic numbers)")
    # thousands of tiny documents (far more descriptors in flight than bytes), with an eager and with a read-everything child
    for label, docs_, pol in (("3000 one-word documents", [b"w%d" % i for i in range(3000)], ["eager"]),
                              ("3000 empty documents", [b""] * 3000, ["eager"]),
                              ("pages, 1500 one-byte documents, pages", [b"page %d " % i * 300 for i in range(40)] + [b"x"] * 1500 + [b"page %d " % i * 300 for i in range(40)], ["eager"]),
                              ("3000 documents of 3 lines, child answers after reading everything", [b"a%d\nb\nc\n" % i for i in range(3000)], ["readall"])):
        import wrappers
        data = b"".join(base64.b64encode(d) + b"\n" for d in docs_)
        st, out, err, trace = wrappers.run_traced(ctx, ["b64filter"], data, pol, timeout=60)
        ctx.count("b64filter.many", 1, [label])
        if st != 0 or out != data:
            pvlib.report_violation(ctx, "b64filter-many:" + label, {"argv": ["b64filter", "python3", "harness/children/child.py"] + pol, "stdin_hex": hx(data)[:200000],
                                   "status": st, "lines_out": out.count(b"\n"), "stderr": err.decode(errors="replace")[-300:]},
                                   summary=f"b64filter with an identity child ({' '.join(pol)}) on {label}: " +
                                           ("did not finish within 60 s" if st == "HANG" else f"status {st}") + f", {out.count(10)} of {len(docs_)} lines out")
            break
    # more than two queue pages of documents with long ones at the page multiples, stdin stalling there (the collector is
    # then fully caught up with the feeder exactly at a page boundary)
    import wrappers
    data, pauses = wrappers.paced_corpus("b64filter")
    st, out, err, trace = wrappers.run_traced(ctx, ["b64filter"], data, ["eager"], timeout=120, pauses=pauses)
    ctx.count("b64filter.paced", 1, [len(data)])
    if st != 0 or out != data:
        gl, wl = out.split(b"\n"), data.split(b"\n")
        k = next((i for i, (p_, q_) in enumerate(zip(gl, wl)) if p_ != q_), min(len(gl), len(wl)))
        pvlib.report_violation(ctx, "b64filter-paced", {
            "argv": ["b64filter", "python3", "harness/children/child.py", "eager"], "stdin_hex": hx(data)[:400000], "stdin_stalls_at_byte_offsets": pauses,
            "status": st, "doc_index": k, "stderr": err.decode(errors="replace")[-300:]},
            summary=f"b64filter with an identity child on {len(wl) - 1} documents, stdin stalling around the queue-page multiples: status {st}, "
                    f"{len(gl) - 1} lines out, first wrong document {k}")

    # the transport of the decoded documents to the child and of the answers to stdout under SHORT write(2) counts (a pipe that takes
    # part of a large write: a stopped and continued process, a slow reader): the documents must come back exactly as without them
    shim = os.path.join(ctx.bdir, "harness", "faults_preload.so")
    docs_ = [b"small\n", b"", bytes(33 + (i * 7) % 90 for i in range(300000)).replace(b"!", b"\n"), b"\n\n", b"no final newline", b"\x00nul\x00\n" * 2000, b"last\n"]
    data = b"".join(base64.b64encode(d) + b"\n" for d in docs_)
    for prof in ("40:0", "100:0"):
        for ms in ("1000", "70000"):
            rep = os.path.join(ctx.tmp, "rep8.txt")
            if os.path.exists(rep):
                os.unlink(rep)
            e = pvlib.san_env({"LD_PRELOAD": shim, "PV_FAULT_RANDOM": f"{ctx.seed}:{prof}", "PV_FAULT_MAXSHORT": ms, "PV_FAULT_REPORT": rep, "PV_DELAY_ONLY": "b64filter"})
            e["ASAN_OPTIONS"] += ":verify_asan_link_order=0"
            st, out, err = pvlib.run_tool([ctx.bin("b64filter"), "cat"], data, env=e, timeout=120)
            ctx.count("b64filter.short-writes", 1, [(prof, ms)])
            if st != 0 or out != data:
                ol = out.split(b"\n")[:-1]
                k = next((i for i, (p_, q_) in enumerate(zip(ol, data.split(b"\n"))) if p_ != q_), min(len(ol), len(docs_)))
                pvlib.report_violation(ctx, f"b64filter-short-writes:{prof}:{ms}", {"argv": ["b64filter", "cat"], "stdin_hex": hx(data)[:300000], "status": st,
                                       "env": {"LD_PRELOAD": "harness/faults_preload.so", "PV_FAULT_RANDOM": f"{ctx.seed}:{prof}", "PV_FAULT_MAXSHORT": ms},
                                       "first_wrong_document": k, "stderr": err.decode(errors="replace")[-300:]},
                                       summary=f"b64filter cat with {prof.split(':')[0]}% of its read/write calls returning short counts (at most {ms} bytes): status {st}, "
                                               f"{len(ol)} of {len(docs_)} documents out, document {k} differs")
                return


def replay(ctx, rp):
    if "stdin_stalls_at_byte_offsets" in rp:
        import wrappers
        i = rp["argv"].index("python3")
        st, out, err, trace = wrappers.run_traced(ctx, rp["argv"][:i], pvlib.unhx(rp["stdin_hex"]), rp["argv"][i + 2:], timeout=120, pauses=rp["stdin_stalls_at_byte_offsets"])
        print("status", st, "stdout bytes", len(out), err[-300:])
        return
    pvlib.generic_replay(ctx, rp)
