"""C10 — field keys depend only on the selected fields (cut -f semantics)."""
import itertools, os
import pvlib
from pvlib import hx

LEVEL = "proof"
RULE = ("RangeFields/IndividualFields in-process (exact-size heap copy of the line, ASan): all lines of length <= 6 (quick) / 7 "
        "(thorough) over {delimiter, x, y} x every defragmented range list obtainable from cut lists with numbers <= 4 and <= 3 "
        "items; oracle: lines containing all selected fields are grouped by their selected fields (spec) and every group must "
        "map to exactly one piece sequence, distinct groups to distinct ones; ParseFields/DefragmentFields: every string of "
        "length <= 5 over {0,1,2,3,',','-'} plus boundary numbers and foreign characters, oracle = the cut LIST grammar; "
        "dedupe -f on the same lines, also in -p mode on either side; non-trivial = distinct op")
ASSUMPTIONS = ["model transcribes preprocess/fields.hh and fields.cc by hand",
               "64-bit hash collisions excepted (keys are compared as piece sequences, not hashes, except through dedupe)"]

KINF = 4294967295


def list_strings():
    items = []
    nums = ["1", "2", "3", "4"]
    for a in nums:
        items.append(a)
        items.append(a + "-")
        items.append("-" + a)
        for b in nums:
            if int(a) <= int(b):
                items.append(a + "-" + b)
    out = set()
    for it in items:
        out.add(it)
    for a, b in itertools.product(items, repeat=2):
        out.add(a + "," + b)
    import random
    r = random.Random(5)
    trip = [",".join(r.sample(items, 3)) for _ in range(150)]
    out.update(trip)
    return sorted(out)


def all_lines(maxlen, d):
    alph = [d, ord("x"), ord("y")]
    for n in range(maxlen + 1):
        for t in itertools.product(alph, repeat=n):
            yield bytes(t)


def nfields(line, d):
    return line.count(bytes([d])) + 1


def contains_all(line, d, ranges):
    nf = nfields(line, d)
    for (b, e) in ranges:
        if e == KINF:
            if not b < nf:
                return False
        elif e > nf:
            return False
    return True


def run(ctx):
    rng = ctx.rng
    # ---------- ParseFields / DefragmentFields
    strs = set()
    alph = "0123,-"
    for n in range(0, 6):
        for t in itertools.product(alph, repeat=n):
            strs.add("".join(t))
    strs.update(["4294967295", "4294967294", "4294967296", "4294967297", "18446744073709551616", "1-4294967295",
                 "99999999999999999999999999", "1--18446744073709551615", "--18446744073709551615", "1-2-", "10-11", "007"])
    foreign = [" 1", "+1", "1 ", "1,+2", "1;2", "a", "1-a", "1.5", "-1 ", "\t2", "1,\n", "0x1", "1-+2", "- 2"]
    strs = sorted(strs)
    pops = ["fields.parse " + hx(s.encode()) for s in strs] + ["fields.parsedefrag " + hx(s.encode()) for s in strs]
    bad, a, b = pvlib.diff_streams(ctx, "fields.parse", pops)
    ctx.cov["parse_accepted"] = sum(1 for x in a if x.startswith("ok"))
    ctx.cov["parse_rejected"] = sum(1 for x in a if x.startswith("ERR"))
    # oracle: only the ParseFields half has a grammar spec; parsedefrag is judged through the model + theorem
    n = len(strs)
    hit = pvlib.judge_by_spec(ctx, "fields.parse", pops[:n], a[:n], b[:n],
                              [o.replace("fields.parse", "fields.spec.parse") for o in pops[:n]],
                              "the cut LIST grammar (N, N-M, N-, -M, comma separated; malformed lists are errors)",
                              "PV.Fields.parseFields vs ParseFields")
    if not hit:
        bad2 = [(o, x, y) for o, x, y in zip(pops[n:], a[n:], b[n:]) if x != y]
        if bad2:
            o, x, y = bad2[0]
            # overlapping ranges accepted / disjoint ones rejected is a property violation; decide with the model's verdict
            pvlib.report_violation(ctx, "fields.parsedefrag:" + o, {"ops": [o], "impl": x, "model": y},
                                   no_input=not (x.startswith("ok") and y.startswith("ERR")),
                                   summary=f"{o}: implementation {x}, model (sort, reject overlap, merge adjacent) {y}")
    fops = ["fields.parsedefrag " + hx(s.encode()) for s in foreign]
    badf, af, bf = pvlib.diff_streams(ctx, "fields.parse.foreign", fops)
    if badf:
        i, o, x, y = badf[0]
        pvlib.report_violation(ctx, "corr:fields.parse.foreign", {"ops": [q[1] for q in badf], "impl": x, "model": y,
                               "correspondence": "PV.Fields.parseFields vs ParseFields on lists with characters outside 0-9 , -"},
                               no_input=True, summary=f"{o}: impl {x} model {y} (character outside the cut alphabet)")
    # ---------- RangeFields / IndividualFields
    lists = list_strings()
    rl = pvlib.run_lines(pvlib.PVDRIVER, ["fields.parsedefrag " + hx(s.encode()) for s in lists])
    range_lists = sorted(set(x[3:] for x in rl if x.startswith("ok ") and x != "ok -"))
    ctx.cov["range_lists"] = len(range_lists)
    maxlen = 6 if ctx.tier == "quick" else 7
    if ctx.tier == "quick":
        rng.shuffle(range_lists)
        range_lists = range_lists[:40] + ["0:1", "1:2", "0:2", "1:4294967295", "0:1,2:3"]
        range_lists = sorted(set(range_lists))
    for d in (9, 32):
        lines = list(all_lines(maxlen, d))
        for unit in ("range", "indiv"):
            ops = [f"fields.{unit} {hx(l)} {hx(bytes([d]))} {r}" for r in range_lists for l in lines]
            if unit == "indiv" and ctx.tier == "quick":
                ops = ops[::3]
            bad, a, b = pvlib.diff_streams(ctx, f"fields.{unit}", ops)
            spec = pvlib.run_lines(pvlib.PVDRIVER, [o.replace(f"fields.{unit}", f"fields.spec.{unit}") for o in ops])
            # property oracle: same selected fields <=> same pieces, among lines containing all selected fields
            by_r = {}
            for o, x, s in zip(ops, a, spec):
                w = o.split()
                line = pvlib.unhx(w[1])
                rs = [tuple(int(v) for v in it.split(":")) for it in w[3].split(",")]
                if not contains_all(line, d, rs):
                    continue
                g = by_r.setdefault(w[3], ({}, {}))
                # spec class -> impl pieces ; impl pieces -> spec class
                prev = g[0].setdefault(s, (x, o))
                if prev[0] != x:
                    pvlib.report_violation(ctx, f"fields.{unit}:samefields:{o}", {"ops": [prev[1], o], "impl": [prev[0], x],
                                           "selected_fields(spec)": s},
                                           summary=f"-f ranges {w[3]}: lines {pvlib.unhx(prev[1].split()[1])!r} and {line!r} have identical "
                                                   f"selected fields but get different key pieces {prev[0]} / {x}")
                    break
                prev2 = g[1].setdefault(x, (s, o))
                if prev2[0] != s:
                    pvlib.report_violation(ctx, f"fields.{unit}:difffields:{o}", {"ops": [prev2[1], o], "impl": x,
                                           "selected_fields(spec)": [prev2[0], s]},
                                           summary=f"-f ranges {w[3]}: lines {pvlib.unhx(prev2[1].split()[1])!r} and {line!r} differ in a "
                                                   f"selected field but get the same key pieces {x}")
                    break
            if not any(v["key"].startswith(f"fields.{unit}:") for v in ctx.violations) and bad:
                # crash / sanitizer results are violations with input (C20 also owns them); pure disagreement = correspondence
                i, o, x, y = bad[0]
                crash = [q for q in bad if not q[2].startswith("ok")]
                if crash:
                    i, o, x, y = crash[0]
                    pvlib.report_violation(ctx, f"fields.{unit}:crash:{o}", {"ops": [o], "impl": x, "model": y},
                                           summary=f"{o}: implementation {x}")
                else:
                    pvlib.report_violation(ctx, f"corr:fields.{unit}", {"ops": [q[1] for q in bad[:10]], "impl": x, "model": y,
                                           "correspondence": f"PV.Fields.{unit}Fields vs fields.hh (lines lacking a selected field)"},
                                           no_input=True, summary=f"{o}: impl {x} model {y}")
    # ---------- through a tool: dedupe -f keeps one line per selected-fields class
    lines = [l for l in all_lines(5, 9)]
    # the same through dedupe, cache and shard, also for lists with a hole that start at field 1 and are open-ended
    # (the tools have a whole-line fast path next to the field path)
    specs = (("1", [(0, 1)]), ("2", [(1, 2)]), ("1-2", [(0, 2)]), ("2-", [(1, KINF)]), ("1,3", [(0, 1), (2, 3)]),
             ("1,3-", [(0, 1), (2, KINF)]), ("-1,3-", [(0, 1), (2, KINF)]), ("3-,1", [(0, 1), (2, KINF)]))
    for spec_list, rs in specs:
        ls = [l for l in lines if contains_all(l, 9, rs) and b"\n" not in l]
        rng.shuffle(ls)
        data = b"".join(l + b"\n" for l in ls)
        st, out, err = pvlib.run_tool([ctx.bin("dedupe"), "-f", spec_list], data, env=pvlib.san_env())
        ctx.count("dedupe-f", 1, [spec_list])
        sp = pvlib.run_lines(pvlib.PVDRIVER, [f"fields.spec.range {hx(l)} 09 " + ",".join(f"{b}:{e}" for b, e in rs) for l in ls])
        seen, want = set(), []
        for l, s in zip(ls, sp):
            if s not in seen:
                seen.add(s)
                want.append(l)
        wantb = b"".join(l + b"\n" for l in want)
        if st != 0 or out != wantb:
            got = out.split(b"\n")[:-1]
            extra = [l for l in got if l not in want][:3]
            missing = [l for l in want if l not in got][:3]
            pvlib.report_violation(ctx, "dedupe-f:" + spec_list, {"argv": ["dedupe", "-f", spec_list], "stdin_hex": hx(data), "status": st,
                                   "kept_but_duplicate_key": [hx(x) for x in extra], "dropped_but_new_key": [hx(x) for x in missing]},
                                   summary=f"dedupe -f {spec_list}: kept {extra!r} although an earlier line has the same selected fields; "
                                           f"dropped {missing!r}")
            continue
        # dedupe -f ... -p in0 in1 out0 out1: each side has its own filter object and key; with unique keys on the other side a pair
        # survives exactly when this side's selected fields are new, whichever side it is
        sub = ls[:300]
        uniq = [b"\t".join([b"u%d" % i] * 6) for i in range(len(sub))]
        seen2, keep = set(), []
        for i, s_ in enumerate(sp[:len(sub)]):
            if s_ not in seen2:
                seen2.add(s_)
                keep.append(i)
        for side in (0, 1):
            f = [os.path.join(ctx.tmp, n_) for n_ in ("p_in0", "p_in1", "p_out0", "p_out1")]
            sides = (sub, uniq) if side == 0 else (uniq, sub)
            for k_ in (0, 1):
                open(f[k_], "wb").write(b"".join(l + b"\n" for l in sides[k_]))
            for o_ in f[2:]:
                if os.path.exists(o_):
                    os.unlink(o_)
            st, out, err = pvlib.run_tool([ctx.bin("dedupe"), "-f", spec_list, "-p"] + f, env=pvlib.san_env())
            ctx.count("dedupe-f-p", 1, [(spec_list, side)])
            o = [open(x, "rb").read() if os.path.exists(x) else b"" for x in f[2:]]
            wantp = [b"".join(sides[k_][i] + b"\n" for i in keep) for k_ in (0, 1)]
            if st != 0 or o != wantp:
                got = o[side].split(b"\n")[:-1]
                missing = [sub[i] for i in keep if sub[i] not in got][:3]
                pvlib.report_violation(ctx, f"dedupe-f-p:{spec_list}:side{side}", {"argv": ["dedupe", "-f", spec_list, "-p", "in0", "in1", "out0", "out1"], "status": st,
                                       "in0": hx(b"".join(l + b"\n" for l in sides[0])), "in1": hx(b"".join(l + b"\n" for l in sides[1])),
                                       "pairs_out": len(got), "pairs_expected": len(keep), "dropped_but_new_key": [hx(x) for x in missing]},
                                       summary=f"dedupe -f {spec_list} -p with the generated lines as input {side} and unique lines as the other input: {len(got)} pairs out, "
                                               f"{len(keep)} have new selected fields" + (f"; {missing[0]!r} was dropped" if missing else "") + f" (status {st})")
                break
        # shard -f: lines with the same selected fields are in the same file
        import shutil
        wd = os.path.join(ctx.tmp, "c10shard")
        shutil.rmtree(wd, ignore_errors=True)
        os.makedirs(wd)
        names = [os.path.join(wd, "s%d" % i) for i in range(7)]
        st, out, err = pvlib.run_tool([ctx.bin("shard"), "-f", spec_list] + names, data, env=pvlib.san_env())
        ctx.count("shard-f", 1, [spec_list])
        where, badpair = {}, None
        cls = dict(zip(ls, sp))
        for i, nm in enumerate(names):
            for l in (open(nm, "rb").read().split(b"\n")[:-1] if os.path.exists(nm) else []):
                k = cls.get(l)
                if k in where and where[k][0] != i:
                    badpair = (where[k][1], l, where[k][0], i)
                where.setdefault(k, (i, l))
        if st != 0 or badpair:
            pvlib.report_violation(ctx, "shard-f:" + spec_list, {"argv": ["shard", "-f", spec_list, "s0..s6"], "stdin_hex": hx(data), "status": st,
                                   "pair": [hx(x) for x in badpair[:2]] if badpair else None},
                                   summary=f"shard -f {spec_list}: lines {badpair[0]!r} and {badpair[1]!r} have the same selected fields but are in files "
                                           f"{badpair[2]} and {badpair[3]}" if badpair else f"shard -f {spec_list}: status {st}")
            continue
        # cache -k: the answer for a line is the child's answer to the first line with the same selected fields
        if len(rs) >= 2:
            # for cache also lines that LACK a selected field (ragged columns): "a<TAB>x" selects ("a"), "<TAB>y<TAB>a" selects ("", "a")
            ls = [l for l in all_lines(4, 9) if b"\n" not in l]
            rng.shuffle(ls)
            data = b"".join(l + b"\n" for l in ls)
            sp = pvlib.run_lines(pvlib.PVDRIVER, [f"fields.spec.range {hx(l)} 09 " + ",".join(f"{b}:{e}" for b, e in rs) for l in ls])
        st, out, err = pvlib.run_tool([ctx.bin("cache"), "-k", spec_list, "cat"], data, env=pvlib.san_env(), timeout=60)
        ctx.count("cache-k", 1, [spec_list])
        first = {}
        wantc = b"".join(first.setdefault(s_, l) + b"\n" for l, s_ in zip(ls, sp))
        if st != 0 or out != wantc:
            gl, wl = out.split(b"\n"), wantc.split(b"\n")
            k = next((i for i, (p_, q_) in enumerate(zip(gl, wl)) if p_ != q_), min(len(gl), len(wl)))
            pvlib.report_violation(ctx, "cache-k:" + spec_list, {"argv": ["cache", "-k", spec_list, "cat"], "stdin_hex": hx(data), "status": st, "line": k},
                                   summary=f"cache -k {spec_list} cat: output line {k} is {gl[k] if k < len(gl) else None!r}, the first line with the same "
                                           f"selected fields is {wl[k] if k < len(wl) else None!r}")

    # two keys whose 64-bit hashes agree in the LOW 32 bits only (chosen with a Python MurmurHash64A): still different keys
    import re as _re
    try:
        cseed = int(_re.search(r"def cacheSeed : Nat := (\d+)", open(os.path.join(pvlib.VERIF, "lean", "PV", "Gen", "Consts.lean")).read()).group(1))
    except Exception:
        cseed = 1
    for tool_, seed_, argv in (("cache", cseed, ["-k", "2", "-t", ",", "cat"]), ("dedupe", 1, ["-f", "2", "-d", ","])):
        pr = pvlib.low32_pair(seed_)
        if not pr:
            continue
        data = b"first," + pr[0] + b",alpha\nsecond," + pr[1] + b",beta\nthird," + pr[0] + b",gamma\n"
        want = data if tool_ == "cache" else b"first," + pr[0] + b",alpha\nsecond," + pr[1] + b",beta\n"
        if tool_ == "cache":
            want = b"first," + pr[0] + b",alpha\nsecond," + pr[1] + b",beta\nfirst," + pr[0] + b",alpha\n"
        st, out, err = pvlib.run_tool([ctx.bin(tool_)] + argv, data, env=pvlib.san_env(), timeout=60)
        ctx.count("low32-collision-pair", 1, [tool_])
        if st != 0 or out != want:
            pvlib.report_violation(ctx, f"low32:{tool_}", {"argv": [tool_] + argv, "stdin_hex": hx(data), "status": st, "got": hx(out), "want": hx(want)},
                                   summary=f"{tool_} {' '.join(argv)}: the keys {pr[0].decode()} and {pr[1].decode()} differ (their 64-bit hashes agree only in the low 32 bits) but "
                                           f"the output is {out!r}")


def replay(ctx, rp):
    pvlib.generic_replay(ctx, rp)
