"""C02 — the line reader yields exactly the input's records for any source and chunking."""
import bz2, gzip, itertools, lzma, os
import pvlib
from pvlib import hx, unhx

LEVEL = "proof"
RULE = ("real util::FilePiece in-process (ReadLine, ReadLineOrEOF, LineIterator; delimiters \\n, \\0, 'x'; strip_cr both): pipe "
        "with read(2) interposed to follow a script of return sizes (every script over {1,2,3} up to length 4 for every input of <= 4 "
        "(quick) / 5 (thorough) bytes over {a, LF, CR, x}; seeded scripts for inputs with records of k*8192+{-1,0,1} bytes, CR and "
        "delimiter exactly at buffer edges, doubling), regular files (mmap) of sizes around page/window boundaries at start offsets "
        "{0,1,4095,4096,size}, istream, gzip/bzip2/xz and multi-member concatenations; bin/remove_long_lines as identity filter; "
        "oracle = PV.Spec.Records.splitRecords on the records the implementation returned; non-trivial = distinct op")
ASSUMPTIONS = ["model transcribes FilePiece::ReadLine/ReadShift/MMapShift by hand; page size 4096",
               "in the mmap -> read fallback the re-run of the compression-magic detection on mid-file bytes is not modelled (generated files never "
               "contain a magic there); progress output is not modelled",
               "decompressors deliver the plain bytes (C15); input does not start with a compression magic unless compressed"]

IMPL = "implreader"


def op(backing, delim, strip, minb, sched, how, start, data):
    return f"reader.lines {backing} {hx(bytes([delim]))} {strip} {minb} {sched} {how} {start} {hx(data)}"


def run(ctx):
    rng = ctx.rng
    impl = os.path.join(ctx.bdir, "harness", IMPL)
    ops = []
    # 1. small inputs x all short scripts
    alph = [b"a", b"\n", b"\r", b"x"]
    maxn = 4 if ctx.tier == "quick" else 5
    scripts = ["-"]
    for k in range(1, 5):
        for t in itertools.product("123", repeat=k):
            scripts.append(",".join(t))
    for n in range(0, maxn + 1):
        for t in itertools.product(alph, repeat=n):
            data = b"".join(t)
            if data[:2] in (b"\x1f\x8b",):
                continue
            for sc in (scripts if n >= 2 else scripts[:8]):
                d, strip = rng.choice([(10, 1), (10, 0), (120, 1), (0, 1)])
                ops.append(op("pipe", d, strip, 1, sc, rng.randrange(3), 0, data))
    # 2. records around the buffer (cap0 = 8192 for min_buffer 1), CR / delimiter at the edges, doubling
    edge = [8191, 8192, 8193, 16383, 16384, 16385, 4095, 4096, 4097, 24576, 32768, 32769]
    for _ in range(150 if ctx.tier == "quick" else 2000):
        parts = []
        for _ in range(rng.randrange(1, 5)):
            ln = rng.choice(edge + [0, 1, 2, rng.randrange(0, 9000)])
            body = bytes(rng.choice(b"abcdefgh") for _ in range(max(0, ln - 2)))
            tail = rng.choice([b"", b"\r", b"\r\r", b"q"])
            parts.append((body + tail)[:ln] if ln else b"")
        data = b"\n".join(parts) + (b"\n" if rng.random() < 0.7 else b"")
        sc = ",".join(str(rng.choice([1, 2, 6, 100, 4096, 8191, 8192, 8193, 100000])) for _ in range(rng.randrange(0, 12))) or "-"
        backing = rng.choice(["pipe", "pipe", "file", "istream"])
        start = 0
        if backing == "file":
            start = rng.choice([0, 0, 1, 4095, 4096, len(data)])
            start = min(start, len(data))
        ops.append(op(backing, 10, rng.randrange(2), rng.choice([1, 1, 1, 9000, 20000]), sc, rng.randrange(3), start, data))
    # 3. regular files of boundary sizes at boundary offsets
    for size in [0, 1, 2, 4095, 4096, 4097, 8191, 8192, 8193, 12288, 16384, 16385, 20000]:
        data = bytes(rng.choice(b"ab\n\r") if rng.random() < 0.02 else 97 + (i % 7) for i in range(size))
        for start in sorted(set(min(s, size) for s in [0, 1, 4095, 4096, 4097, 8192, size])):
            ops.append(op("file", 10, 1, 1, "-", rng.randrange(3), start, data))
    # 3b. regular files whose k-th and later mmap calls fail (FilePiece falls back to read(2) at the first window,
    #     at a later window, in the middle of a record, at aligned and unaligned offsets), then short reads
    for _ in range(60 if ctx.tier == "quick" else 1200):
        size = rng.choice([0, 1, 5000, 8192, 8193, 12000, 20000, 30000, 40000])
        llen = rng.choice([7, 60, 700, 5000, 9000])
        data = bytes(10 if (rng.random() < 1.0 / llen) else (13 if rng.random() < 0.01 else 97 + (i % 23)) for i in range(size))
        start = min(size, rng.choice([0, 0, 1, 904, 4095, 4096, 4097, 5000, 8192, 9001]))
        k = rng.choice([0, 0, 1, 1, 2, 3])
        sc = ",".join(str(rng.choice([1, 2, 6, 100, 4096, 8191, 8192, 8193, 100000])) for _ in range(rng.randrange(0, 10))) or "-"
        ops.append(op(f"filenommap:{k}", 10, rng.randrange(2), 1, sc, rng.randrange(3), start, data))
    ctx.cov["mmap_fallback_ops"] = sum(1 for o in ops if " filenommap" in o)
    ops = list(dict.fromkeys(ops))
    bad, a, b = pvlib.diff_streams(ctx, "reader.lines", ops, impl_exe=impl)
    ctx.cov["records_total"] = sum(int(x.split()[1]) for x in a if x.startswith("ok "))
    spec_ops = [o.replace("reader.lines", "reader.spec.lines") for o in ops]
    pvlib.judge_by_spec(ctx, "reader", ops, a, b, spec_ops, "the record specification (split at the delimiter, strip one CR, final unterminated record, stable EOF)",
                        "PV.Reader.recordsRead/recordsMmap vs util::FilePiece")
    # 4. compressed backings and multi-member streams: records must equal those of the plain bytes
    cops, want_ops = [], []
    for _ in range(30 if ctx.tier == "quick" else 300):
        members = []
        for _ in range(rng.randrange(1, 4)):
            n = rng.choice([0, 1, 100, 8192, 20000, rng.randrange(0, 40000)])
            members.append(bytes(rng.choice(b"abc\n\n\r ") for _ in range(n)))
        plain = b"".join(members)
        comp = rng.choice(["gz", "bz2", "xz", "mix"])
        enc = {"gz": gzip.compress, "bz2": bz2.compress, "xz": lzma.compress}
        blob = b"".join((enc[comp] if comp != "mix" else enc[rng.choice(["gz", "bz2", "xz"])])(m) for m in members)
        backing = rng.choice(["pipe", "file"])
        sc = ",".join(str(rng.choice([1, 7, 100, 16384])) for _ in range(rng.randrange(0, 8))) or "-"
        cops.append(op(backing, 10, 1, 1, sc, 0, 0, blob))
        want_ops.append(op("pipe", 10, 1, 1, "-", 0, 0, plain).replace("reader.lines", "reader.spec.lines"))
    # every order of two and three members of different formats, and EMPTY members (one, two, three in a row) between records
    enc_ = {"gz": gzip.compress, "bz2": bz2.compress, "xz": lzma.compress}
    seqs_ = [(a_, b_) for a_ in enc_ for b_ in enc_] + [("gz", "xz", "bz2"), ("xz", "xz", "gz"), ("bz2", "xz", "gz"), ("xz", "gz", "xz")]
    for fm in seqs_:
        parts = [b"member %d line a\nline b\r\n\n" % i * 40 for i in range(len(fm))]
        blob = b"".join(enc_[f_](m_) for f_, m_ in zip(fm, parts))
        for backing in ("pipe", "file"):
            cops.append(op(backing, 10, 1, 1, "-", 0, 0, blob))
            want_ops.append(op("pipe", 10, 1, 1, "-", 0, 0, b"".join(parts)).replace("reader.lines", "reader.spec.lines"))
    for f_ in enc_:
        for nempty in (1, 2, 3):
            for where in ("middle", "front", "end"):
                pieces = [b"first record\n", b"second record\nthird\n"]
                e_ = [enc_[f_](b"")] * nempty
                ms = {"middle": [enc_[f_](pieces[0])] + e_ + [enc_[f_](pieces[1])], "front": e_ + [enc_[f_](x) for x in pieces], "end": [enc_[f_](x) for x in pieces] + e_}[where]
                cops.append(op("pipe", 10, 1, 1, "-", 0, 0, b"".join(ms)))
                want_ops.append(op("pipe", 10, 1, 1, "-", 0, 0, b"".join(pieces)).replace("reader.lines", "reader.spec.lines"))
    for k in (1, 2):
        for delta in (-1, 0, 1):
            first = pvlib.gz_exact(6 + 16384 * k + delta, bytes(rng.choice(b"abc\n\r ") for _ in range(6 + 16384 * k + delta)))
            if first:
                tail = bytes(rng.choice(b"xyz\n") for _ in range(5000))
                blob = first[1] + gzip.compress(tail) + gzip.compress(b"last\n")
                for backing in ("pipe", "file"):
                    cops.append(op(backing, 10, 1, 1, "-", 0, 0, blob))
                    want_ops.append(op("pipe", 10, 1, 1, "-", 0, 0, first[0] + tail + b"last\n").replace("reader.lines", "reader.spec.lines"))
    # a compressed stream that begins at an offset of a regular file (the tool was handed a descriptor positioned behind a header):
    # aligned and unaligned offsets, the page before it holding plain text or bytes that look like another magic number
    payload = b"".join(b"payload line %d\r\n" % i for i in range(300)) + b"last, unterminated"
    for fmt_, encf in (("gz", gzip.compress), ("bz2", bz2.compress), ("xz", lzma.compress)):
        for start in (0, 37, 4096, 4097, 12287):
            for filler in (b"h", b"BZh9", b"\x1f\x8b\x08\x00"):
                head = (filler * (start // len(filler) + 1))[:start]
                cops.append(op("file", 10, 1, 1, "-", rng.randrange(3), start, head + encf(payload)))
                want_ops.append(op("pipe", 10, 1, 1, "-", 0, 0, payload).replace("reader.lines", "reader.spec.lines"))
    ca = pvlib.run_lines(impl, cops, env=pvlib.san_env(), timeout=600)
    cw = pvlib.run_lines(pvlib.PVDRIVER, want_ops)
    ctx.count("reader.compressed", len(cops), cops)
    for o, x, w in zip(cops, ca, cw):
        if x != w:
            pvlib.report_violation(ctx, "reader-compressed:" + o[:120], {"ops": [o], "impl": x[:400], "records_of_plain_bytes": w[:400]},
                                   summary=f"records read from a compressed/multi-member stream differ from the records of the plain bytes ({x[:60]} vs {w[:60]})")
            break
    # 5. a real tool as identity filter
    for _ in range(20 if ctx.tier == "quick" else 200):
        n = rng.choice([0, 1, 8191, 8192, 8193, 30000])
        data = bytes(rng.choice(b"ab\n\r\x00\xff") for _ in range(n))
        if data[:2] == b"\x1f\x8b":
            continue
        back = rng.choice(["pipe", "file"])
        if back == "pipe":
            st, out, err = pvlib.run_tool([ctx.bin("remove_long_lines"), "999999999"], data, env=pvlib.san_env())
        else:
            f = os.path.join(ctx.tmp, "in.txt")
            open(f, "wb").write(data)
            st, out, err = pvlib.run_tool([ctx.bin("remove_long_lines"), "999999999"], env=pvlib.san_env(), stdin_file=f)
        w = pvlib.run_lines(pvlib.PVDRIVER, [op("pipe", 10, 1, 1, "-", 0, 0, data).replace("reader.lines", "reader.spec.lines")])[0]
        want = b"".join(unhx(t) + b"\n" for t in w.split()[2:])
        ctx.count("remove_long_lines.identity", 1, [(back, data)])
        if st != 0 or out != want:
            pvlib.report_violation(ctx, "reader-tool:" + hx(data)[:80], {"argv": ["remove_long_lines", "999999999"], "stdin_hex": hx(data), "backing": back,
                                   "status": st}, summary=f"remove_long_lines as identity filter ({back}, {n} bytes) does not reproduce the records")
            break

    # 6. the tools' own buffer (1 MiB + one page, doubling): records longer than half of it, than all of it and than several
    #    doublings, FOLLOWING short records (so that the long record does not start at the front of the buffer when the buffer
    #    fills up), through every read(2) backing and as a regular file
    import gzip as _gz, bz2 as _bz2
    shapes = []
    for pre in ([b"x"], [b"id 1", b"second header line"], [b"short %d" % i for i in range(400)], [b"y" * 500000]):
        for ln in (540000, 700000, 1100000, 1572864, 3 * 1048576 + 7):
            shapes.append((pre, ln))
    rng.shuffle(shapes)
    for pre, ln in shapes[:(8 if ctx.tier == "quick" else len(shapes))]:
        longrec = bytes(48 + (i * 7 + i // 4093) % 43 for i in range(ln))
        recs = pre + [longrec, b"after", longrec[:1000], b"end"]
        data = b"".join(r + b"\n" for r in recs)
        for back in ("pipe", "gz", "bz2", "file"):
            if back == "pipe":
                st, out, err = pvlib.run_tool([ctx.bin("remove_long_lines"), "999999999"], data, env=pvlib.san_env(), timeout=120)
            else:
                f = os.path.join(ctx.tmp, "long." + back)
                open(f, "wb").write({"gz": _gz.compress(data, 1), "bz2": _bz2.compress(data, 1), "file": data}[back] if back != "file" else data)
                st, out, err = pvlib.run_tool([ctx.bin("remove_long_lines"), "999999999"], env=pvlib.san_env(), stdin_file=f, timeout=120)
            ctx.count("long-record-after-short", 1, [(len(pre), ln, back)])
            if st != 0 or out != data:
                ol = out.split(b"\n")
                k = next((i for i, (a_, b_) in enumerate(zip(ol, recs)) if a_ != b_), min(len(ol), len(recs)))
                pvlib.report_violation(ctx, f"reader-long:{len(pre)}:{ln}:{back}", {"argv": ["remove_long_lines", "999999999"], "backing": back, "status": st,
                                       "generator": f"{len(pre)} short record(s) of {len(pre[0])} bytes, a record of {ln} bytes (bytes 48 + (i*7 + i//4093) % 43), 'after', its first 1000 bytes, 'end'",
                                       "records_out": len(ol) - 1, "records_in": len(recs), "first_diff_record": k, "got_len": len(ol[k]) if k < len(ol) else None,
                                       "want_len": len(recs[k]) if k < len(recs) else None},
                                       summary=f"remove_long_lines as identity filter ({back}): {len(pre)} short record(s) then a {ln}-byte record: {len(ol) - 1} records out of {len(recs)}, "
                                               f"record {k} has {len(ol[k]) if k < len(ol) else None} bytes instead of {len(recs[k]) if k < len(recs) else None} (status {st})")
                return


def replay(ctx, rp):
    impl = os.path.join(ctx.bdir, "harness", IMPL)
    if "ops" in rp:
        a = pvlib.run_lines(impl, rp["ops"], env=pvlib.san_env())
        b = pvlib.run_lines(pvlib.PVDRIVER, rp["ops"])
        for o, x, y in zip(rp["ops"], a, b):
            print(f"{o[:200]}\n  impl : {x[:300]}\n  model: {y[:300]}")
    if "argv" in rp:
        pvlib.generic_replay(ctx, {"argv": rp["argv"], "stdin_hex": rp["stdin_hex"]})
