"""C17 — WARC records are framed exactly and survive parallel processing intact."""
import gzip, os, re, zlib
import pvlib
from pvlib import hx, unhx

LEVEL = "proof"
RULE = ("WARCReader::Read in-process on a pipe with read(2) interposed: every first-split point of a 2-record stream, seeded scripts for "
        "streams whose header blocks and bodies straddle the 4096-byte read size, bodies of 0..20000 bytes of any value; malformed corpus "
        "(no version line, missing / duplicate / negative / empty / signed Content-Length, missing terminator, truncation at EVERY byte of a "
        "small stream); gzip input; bin/warc_parallel with cat for -j 1..8, several -i inputs, -z (each output member must expand to exactly "
        "one record); oracle = an independent framing parser; non-trivial = distinct op / (args, input)")
ASSUMPTIONS = ["model transcribes warc.cc by hand; LF-only header lines and '+N' lengths are read the obvious way (lenient, as documented)",
               "warc_parallel's queue/worker threads are covered by C16's theorems; here its output is checked as a multiset of whole records"]


def rec(body, headers=(b"WARC-Type: response",), eol=b"\r\n", cl=None, term=b"\r\n\r\n"):
    h = b"WARC/1.0" + eol + b"".join(x + eol for x in headers)
    h += (cl if cl is not None else b"Content-Length: " + str(len(body)).encode()) + eol + eol
    return h + body + term


def frame_split(data):
    """independent framing oracle: (records, error or None)"""
    recs = []
    pos = 0
    while pos < len(data):
        # header block
        p = pos
        lines = []
        while True:
            nl = data.find(b"\n", p)
            if nl < 0:
                return recs, "truncated-header"
            line = data[p:nl]
            if line.endswith(b"\r"):
                line = line[:-1]
            p = nl + 1
            lines.append(line)
            if len(lines) == 1 and line != b"WARC/1.0":
                return recs, "version"
            if len(lines) > 1 and line == b"":
                break
        cls = [l for l in lines if l[:15].lower() == b"content-length:"]
        if len(cls) == 0:
            return recs, "nolength"
        if len(cls) > 1:
            return recs, "twolengths"
        m = re.fullmatch(rb"[ \t]*\+?([0-9]+)", cls[0][15:])
        if not m:
            return recs, "lengthparse"
        n = int(m.group(1))
        end = p + n + 4
        if end > len(data):
            return recs, "truncated-body"
        if data[end - 4:end] != b"\r\n\r\n":
            return recs, "noterminator"
        recs.append(data[pos:end])
        pos = end
    return recs, None


def classify(x):
    w = x.split()
    err = w[-1] if w[-1].startswith("ERR:") else None
    n = int(w[1])
    return [unhx(t) for t in w[2:2 + n]], err


def run(ctx):
    rng = ctx.rng
    impl = os.path.join(ctx.bdir, "harness", "implreader")
    ops = []
    two = rec(b"hello body", (b"WARC-Type: a", b"X: " + b"y" * 30)) + rec(b"", ())
    for k in range(1, len(two) + 1):
        ops.append(f"warc.read {k} {hx(two)}")
        ops.append(f"warc.read {k},1,1,1 {hx(two)}")
    for _ in range(200 if ctx.tier == "quick" else 3000):
        rs = []
        for _ in range(rng.randrange(1, 5)):
            n = rng.choice([0, 1, 5, 4000, 4096, 4097, 8192, rng.randrange(0, 20000)])
            body = bytes(rng.randrange(256) for _ in range(n)) if n < 3000 else bytes([rng.randrange(256)]) * n
            hdrs = [b"H%d: " % i + b"v" * rng.choice([1, 10, 2000, 4090]) for i in range(rng.randrange(0, 3))]
            rs.append(rec(body, hdrs, eol=rng.choice([b"\r\n", b"\r\n", b"\n"])))
        data = b"".join(rs)
        sc = ",".join(str(rng.choice([1, 2, 7, 100, 4095, 4096, 4097, 100000])) for _ in range(rng.randrange(0, 10))) or "-"
        ops.append(f"warc.read {sc} {hx(data)}")
    good = rec(b"abc")
    mal = [b"", b"\n", b"junk\r\n", b"WARC/1.1\r\nContent-Length: 0\r\n\r\n\r\n\r\n",
           rec(b"abc", cl=b"X-Nothing: 1"), rec(b"abc", headers=(b"Content-Length: 3",)), rec(b"abc", cl=b"Content-Length: -4") + good,
           rec(b"abc", cl=b"Content-Length: -3"), rec(b"abc", cl=b"Content-Length:"), rec(b"abc", cl=b"Content-Length: "), rec(b"abc", cl=b"Content-Length: +3"),
           rec(b"abc", cl=b"Content-Length: 3x"), rec(b"abc", cl=b"content-LENGTH:3"), rec(b"abc", term=b"\r\n\r\r"), rec(b"abc", term=b"\n\n\n\n"),
           rec(b"abc", cl=b"Content-Length: 2"), rec(b"abc", cl=b"Content-Length: 4") + good, rec(b"abc", cl=b"Content-Length: 99999"),
           good + b"WARC/1.0\r\n", good + b"\r\n", rec(b"abc", cl=b"Content-Length: 0x3"), rec(b"abc", cl=b"Content-Length: 3 "),
           rec(b"abc", headers=(b"content-length: 9",)), rec(b"abc", headers=(b"CONTENT-LENGTH: 3",)), rec(b"abc", cl=b"CONTENT-LENGTH: 3") + good,
           rec(b"abc", cl=b"Content-length: 3") + rec(b"", cl=b"content-length: 0")]
    for m in mal:
        ops.append(f"warc.read - {hx(m)}")
        ops.append(f"warc.read 1,1,1,1,1,1,1,1,1,1 {hx(m)}")
    small = rec(b"xy", (b"A: b",)) + rec(b"", ())
    for k in range(0, len(small)):
        ops.append(f"warc.read - {hx(small[:k])}")
    ops = list(dict.fromkeys(ops))
    bad, a, b = pvlib.diff_streams(ctx, "warc.read", ops, impl_exe=impl)
    ctx.cov["records_read"] = sum(int(x.split()[1]) for x in a if x.startswith("ok "))
    ctx.cov["streams_rejected"] = sum(1 for x in a if "ERR:" in x)
    viol = None
    for o, x in zip(ops, a):
        data = unhx(o.split()[2])
        want_recs, want_err = frame_split(data)
        if not x.startswith("ok "):
            viol = (o, x, "crash")
            break
        got_recs, got_err = classify(x)
        if got_recs != want_recs[:len(got_recs)] or (want_err is None) != (got_err is None) or (want_err is None and got_recs != want_recs) \
                or len(got_recs) > len(want_recs):
            viol = (o, x, f"framing oracle: {len(want_recs)} records, error={want_err}")
            break
    if viol:
        o, x, why = viol
        pvlib.report_violation(ctx, "warc:" + o[:200], {"ops": [o], "impl": x[:1000], "oracle": why, "input": unhx(o.split()[2])[:400].decode("latin-1")},
                               summary=f"WARC stream {unhx(o.split()[2])[:70]!r}: reader returned {x.split()[1]} records{' + ' + x.split()[-1] if 'ERR' in x else ''}; {why}")
    elif bad:
        i, o, x, y = bad[0]
        pvlib.report_violation(ctx, "corr:warc.read", {"ops": [q[1][:400] for q in bad[:5]], "impl": x[:400], "model": y[:400],
                               "correspondence": "PV.Warc.records vs WARCReader::Read"}, no_input=True,
                               summary=f"warc model/impl differ: {x[-40:]} vs {y[-40:]}")
    # lengths no stream can have (around 2^63, around 2^64, and the values for which header + length + 4 wraps to 0..3): an error,
    # whichever (the model has no memory limit, the code has max_size), and no access outside the buffers
    hl = len(rec(b"", cl=b"Content-Length: 18446744073709551562")) - 4
    huge = [2 ** 63 - 1, 2 ** 63, 2 ** 64 - 1, 2 ** 64, 10 ** 20] + [2 ** 64 - hl - 4 + t for t in range(-1, 6)] + [2 ** 64 - hl - 4 - 2 + t for t in range(0, 3)]
    hops = [f"warc.read {sc} {hx(rec(b'abc', cl=b'Content-Length: %d' % v) + good)}" for v in huge for sc in ("-", "1,1,1,1,1,1")]
    for o, x in zip(hops, pvlib.run_lines(impl, hops, env=pvlib.san_env())):
        ctx.count("warc.read.huge-length", 1, [o])
        ok_ = x.startswith("ok 0 ERR:")
        if not ok_:
            pvlib.report_violation(ctx, "warc-huge:" + o[:120], {"ops": [o], "impl": x[:300], "input": unhx(o.split()[2])[:200].decode("latin-1")},
                                   summary=f"WARC record with {unhx(o.split()[2])[10:60]!r}: {x[:80]} instead of an error")
            break
    # gzip input
    for _ in range(10 if ctx.tier == "quick" else 100):
        rs = [rec(bytes(rng.randrange(256) for _ in range(rng.randrange(0, 3000)))) for _ in range(rng.randrange(1, 6))]
        blob = b"".join(gzip.compress(r) for r in rs) if rng.random() < 0.5 else gzip.compress(b"".join(rs))
        x = pvlib.run_lines(impl, [f"warc.read - {hx(blob)}"], env=pvlib.san_env())[0]
        ctx.count("warc.read.gz", 1, [blob])
        if not x.startswith("ok ") or classify(x) != (rs, None):
            pvlib.report_violation(ctx, "warc-gz:" + hx(blob)[:80], {"ops": [f"warc.read - {hx(blob)}"], "impl": x[:300]},
                                   summary="records read from gzip input differ from the plain records")
            break
    # warc_parallel
    for j in ([1, 2, 3, 8] if ctx.tier == "quick" else range(1, 9)):
        for z in (False, True):
            rs = [rec(bytes([65 + (i % 26)]) * rng.choice([0, 1, 100, 5000, 70000 if i % 7 == 0 else 10]), (b"WARC-Target-URI: u%d" % i,)) for i in range(rng.randrange(0, 40))]
            data = b"".join(rs)
            f1 = os.path.join(ctx.tmp, "a.warc")
            f2 = os.path.join(ctx.tmp, "b.warc.gz")
            use_i = rng.random() < 0.4 and len(rs) > 1
            args = ["-j", str(j)] + (["-z"] if z else [])
            if use_i:
                half = len(rs) // 2
                open(f1, "wb").write(b"".join(rs[:half]))
                open(f2, "wb").write(gzip.compress(b"".join(rs[half:])))
                st, out, err = pvlib.run_tool([ctx.bin("warc_parallel")] + args + ["-i", f1, f2, "--", "cat"], b"", env=pvlib.san_env(), timeout=120)
            else:
                st, out, err = pvlib.run_tool([ctx.bin("warc_parallel")] + args + ["cat"], data, env=pvlib.san_env(), timeout=120)
            ctx.count("warc_parallel", 1, [(j, z, use_i, data)])
            problem = None
            if st != 0:
                problem = f"status {st}"
            else:
                if z:
                    got, rest = [], out
                    try:
                        while rest:
                            d = zlib.decompressobj(31)
                            got.append(d.decompress(rest))
                            rest = d.unused_data
                        if any(frame_split(g) != ([g], None) for g in got):
                            problem = "an output gzip member does not expand to exactly one record"
                    except zlib.error as e:
                        problem = f"output is not a valid gzip stream: {e}"
                else:
                    got, e = frame_split(out)
                    if e:
                        problem = f"output framing broken ({e}): bytes of records interleaved or damaged"
                if not problem and sorted(got) != sorted(rs):
                    problem = f"output records are not the input records exactly once ({len(got)} vs {len(rs)})"
            if problem:
                pvlib.report_violation(ctx, f"warc_parallel:{j}:{z}:{hx(data)[:40]}", {"argv": ["warc_parallel"] + args + ["cat"], "stdin_hex": hx(data)[:200000], "status": st,
                                       "stderr": err.decode(errors="replace")[-300:]}, summary=f"warc_parallel {' '.join(args)} cat: {problem}")
                break
    # gzip members that expand to NOTHING (what `cat shard*.warc.gz` gives when a shard had no record): one, two, three in a row, in
    # front of, between and behind the records; the records must all come out
    empty_m = gzip.compress(b"")
    rs3 = [rec(b"first body", (b"WARC-Target-URI: u1",)), rec(b"second " * 30, (b"WARC-Target-URI: u2",)), rec(b"", (b"WARC-Target-URI: u3",))]
    for nempty in (1, 2, 3):
        for where in (0, 1, 2, 3):
            ms = [gzip.compress(r) for r in rs3]
            ms[where:where] = [empty_m] * nempty
            blob = b"".join(ms)
            x = pvlib.run_lines(impl, [f"warc.read - {hx(blob)}"], env=pvlib.san_env())[0]
            ctx.count("warc.read.gz-empty-members", 1, [(nempty, where)])
            if not x.startswith("ok ") or classify(x) != (rs3, None):
                pvlib.report_violation(ctx, f"warc-gz-empty:{nempty}:{where}", {"ops": [f"warc.read - {hx(blob)}"], "impl": x[:300],
                                       "layout": f"3 records, one gzip member each, with {nempty} empty member(s) inserted before member {where}"},
                                       summary=f"per-record gzip input with {nempty} empty gzip member(s) before record {where + 1}: {x[:80]}; expected the 3 records")
                break
        else:
            continue
        break
    # per-record .warc.gz input whose FIRST member ends 0..7 bytes before / after the end of the reader's 16384-byte input chunk (the
    # chunks start behind the 6 magic bytes): stored (level 0) members have an exactly known length, body + 23 bytes below 64 KiB.
    # Every layout must give the records back; the same file cut 1..5 bytes into the second member's header must be an error.
    def stored_member(data):
        m = gzip.compress(data, 0, mtime=0)
        return m
    probe = len(stored_member(b"x" * 1000)) - 1000
    for gap in range(-3, 9):
        first_len = 6 + 16384 - gap                     # the first member ends `gap` bytes before the end of chunk 1
        r1 = rec(b"", (b"WARC-Target-URI: first",))
        pad = first_len - probe - len(r1)
        r1 = rec(bytes(65 + i % 26 for i in range(pad)), (b"WARC-Target-URI: first",))
        r1 = r1[:len(r1)]                                  # header grows with the digits of Content-Length: re-fit below
        while len(stored_member(r1)) != first_len and pad > 0:
            pad -= len(stored_member(r1)) - first_len
            r1 = rec(bytes(65 + i % 26 for i in range(pad)), (b"WARC-Target-URI: first",))
        rs = [r1, rec(b"second body " * 50, (b"WARC-Target-URI: second",)), rec(b"third", (b"WARC-Target-URI: third",))]
        blob = b"".join(stored_member(r) for r in rs)
        fits = len(stored_member(r1)) == first_len
        x = pvlib.run_lines(impl, [f"warc.read - {hx(blob)}"], env=pvlib.san_env())[0]
        ctx.count("warc.read.gz-member-boundary", 1, [(gap, fits)])
        if not x.startswith("ok ") or classify(x) != (rs, None):
            pvlib.report_violation(ctx, f"warc-gz-boundary:{gap}", {"ops": [f"warc.read - {hx(blob)}"], "impl": x[:300], "first_member_bytes": len(stored_member(r1)),
                                   "layout": f"three stored gzip members; the first ends {gap} byte(s) before offset 6 + 16384"},
                                   summary=f"per-record gzip input whose first member ends {gap} byte(s) before the end of the reader's first 16384-byte chunk: {x[:80]}; expected the 3 records")
            break
        if 1 <= gap <= 5:
            cut = blob[:len(stored_member(r1)) + gap]       # ... plus the first `gap` bytes of the second member's header
            xc = pvlib.run_lines(impl, [f"warc.read - {hx(cut)}"], env=pvlib.san_env())[0]
            ctx.count("warc.read.gz-member-boundary-cut", 1, [gap])
            if "ERR" not in xc:
                pvlib.report_violation(ctx, f"warc-gz-boundary-cut:{gap}", {"ops": [f"warc.read - {hx(cut)}"], "impl": xc[:300]},
                                       summary=f"gzip input cut {gap} byte(s) into the second member's header (at the end of the reader's first chunk): {xc[:80]} instead of an error")
                break
    # -z: every record is compressed on its own with util::GZCompress; its buffer-edge cases come up about once in 1500
    # records of 60..130 kB, so the routine is also driven directly on several thousand record-sized bodies (in parallel)
    from concurrent.futures import ThreadPoolExecutor
    implz = os.path.join(ctx.bdir, "harness", "implcompress")
    nproc, per = 16, (300 if ctx.tier == "quick" else 4000)
    gops = [f"z.gzcompressrand {ctx.seed * 100 + 50 + k} {per} 60000 200000" for k in range(nproc)]
    with ThreadPoolExecutor(max_workers=nproc) as ex:
        gres = list(ex.map(lambda o: pvlib.run_lines(implz, [o], env=pvlib.san_env(), timeout=3000, per_line_timeout=3000, stall=3000)[0], gops))
    ctx.count("gzcompress-record-bodies", len(gops), gops)
    for o, gzr in zip(gops, gres):
        if not gzr.startswith("ok "):
            pvlib.report_violation(ctx, "warc-z-member:" + o, {"ops": [o], "impl": gzr[:400]},
                                   summary=f"the gzip member warc_parallel -z would write for a record body does not expand to that body ({o}): {gzr[:260]}")
            break
    # several -i inputs (one reader thread each, all producing into the same queue) under a legal but unusual schedule:
    # every third pthread_mutex_unlock in warc_parallel is followed by a short sleep (nothing is dropped or reordered)
    shim = os.path.join(ctx.bdir, "harness", "faults_preload.so")
    for rnd in range(3 if ctx.tier == "quick" else 20):
        files, allrecs = [], []
        for k in range(4):
            rs = [rec(bytes([65 + ((i + k) % 26)]) * rng.choice([0, 1, 100, 5000, 70000 if i % 9 == 0 else 10]),
                      (b"WARC-Target-URI: r%d-f%d-n%d" % (rnd, k, i),)) for i in range(40 if ctx.tier == "quick" else 60)]
            f = os.path.join(ctx.tmp, "in%d.warc" % k)
            open(f, "wb").write(b"".join(rs))
            files.append(f)
            allrecs += rs
        env = pvlib.san_env({"LD_PRELOAD": shim, "PV_DELAY_AFTER_UNLOCK_US": "3000:3", "PV_DELAY_ONLY": "warc_parallel"})
        env["ASAN_OPTIONS"] += ":verify_asan_link_order=0"
        argv = ["warc_parallel", "-j", "3", "-i"] + files + ["--", "cat"]
        st, out, err = pvlib.run_tool([ctx.bin("warc_parallel")] + argv[1:], b"", env=env, timeout=300)
        ctx.count("warc_parallel-multi-input", 1, [(rnd, len(allrecs))])
        got, e = frame_split(out) if st == 0 else ([], None)
        if st != 0 or e or sorted(got) != sorted(allrecs):
            lost = len([r for r in allrecs if r not in got]) if st == 0 and not e else None
            pvlib.report_violation(ctx, f"warc_parallel-multi:{rnd}", {
                "argv": argv, "generator": f"4 files x {len(allrecs) // 4} records, seed {ctx.seed} round {rnd}", "env": {"PV_DELAY_AFTER_UNLOCK_US": "3000:3", "PV_DELAY_ONLY": "warc_parallel"},
                "input_files_hex": [hx(open(f_, "rb").read()) for f_ in files], "status": st, "records_in": len(allrecs), "records_out": len(got), "input_records_missing_from_output": lost, "framing_error": e,
                "stderr": err.decode(errors="replace")[-300:]},
                summary=f"warc_parallel -j 3 -i <4 files> -- cat under a legal schedule (sleep after every 3rd mutex unlock): status {st}, "
                        f"{len(got)} of {len(allrecs)} records out, {lost} input records missing, framing error {e}")
            break


def replay(ctx, rp):
    if "input_files_hex" in rp:
        files = []
        for k, h in enumerate(rp["input_files_hex"]):
            f = os.path.join(ctx.tmp, "in%d.warc" % k)
            open(f, "wb").write(unhx(h))
            files.append(f)
        env = pvlib.san_env(dict(rp["env"], LD_PRELOAD=os.path.join(ctx.bdir, "harness", "faults_preload.so")))
        env["ASAN_OPTIONS"] += ":verify_asan_link_order=0"
        st, out, err = pvlib.run_tool([ctx.bin("warc_parallel"), "-j", "3", "-i"] + files + ["--", "cat"], b"", env=env, timeout=300)
        got, e = frame_split(out) if st == 0 else ([], None)
        print("status", st, "records out", len(got), "of", rp["records_in"], "framing error", e, err[-300:])
        return
    impl = os.path.join(ctx.bdir, "harness", "implreader")
    if "ops" in rp:
        a = pvlib.run_lines(impl, rp["ops"], env=pvlib.san_env())
        b = pvlib.run_lines(pvlib.PVDRIVER, rp["ops"])
        for o, x, y in zip(rp["ops"], a, b):
            print(f"{o[:200]}\n  impl : {x[:300]}\n  model: {y[:300]}\n  oracle: {frame_split(unhx(o.split()[2]))[1]}")
    if "argv" in rp:
        pvlib.generic_replay(ctx, {"argv": rp["argv"], "stdin_hex": rp["stdin_hex"]})
