"""C05 — child-process wrappers never deadlock and always complete in order."""
import sys, base64, os
import pvlib, wrappers
from pvlib import hx

LEVEL = "proof"
RULE = ("the LTS theorems quantify over all interleavings, capacities and child policies; the tie runs the three real binaries "
        "(PV_TRACE hooks on) with scripted children {eager, blocks of 2/64 lines, read-everything-first} on inputs of "
        "{0,1,2,4095,4096,4097} lines, >64 KiB and 1 MiB totals and single lines larger than both pipes (cache), under varied "
        "scheduling (nice), with long runs of repeated lines (cache), with short inputs over {empty, a, b} in every arrangement (an empty first record repeated later) and with stdin stalling around the queue-page multiples; each run must finish within the timeout with complete ordered output, and its recorded event trace "
        "(enqueue/write/poison/close, consume/read/out) must be accepted by the visible-event automaton that the LTS refines; "
        "non-trivial = distinct (tool, child policy, input shape)")
ASSUMPTIONS = ["real system ⊆ LTS is validated on the visible events only (child and pipe steps are not observable)",
               "children answer one line per line; the OS scheduler is sampled, the enumeration over schedules is in the proof"]


def inputs(ctx, tool):
    rng = ctx.rng
    out = []
    sizes = [0, 1, 2, 4095, 4096, 4097] if ctx.tier != "quick" else [0, 1, 2, 4097]
    for n in sizes:
        out.append((f"{n} lines", [b"l%d w" % (i % 700) for i in range(n)]))
    out.append(("300 KiB", [bytes(rng.choice(b"abcdefg ") for _ in range(rng.randrange(0, 200))) for _ in range(3000)]))
    if tool == "cache":
        out.append(("70001 repeats of one line", [b"x"] * 70001))
        out.append(("5000 distinct lines then 140000 repeats", [b"row %d" % i for i in range(5000)] + [b"row %d" % (i % 100) for i in range(140000)]))
        out.append(("1 MiB line", [b"x" * (1 << 20), b"y", b"x" * (1 << 20)]))
        out.append(("200 KiB lines", [b"%d" % i + b"z" * 200000 for i in range(4)]))
    if ctx.tier != "quick":
        out.append(("1 MiB total", [b"w%d " % i * 20 for i in range(12000)]))
    return out


def run(ctx):
    rng = ctx.rng
    perturbed(ctx)
    paused_after_post(ctx)
    policies = [["eager"], ["block", "2"], ["block", "64"], ["readall"]]
    for tool, base in (("cache", ["cache"]), ("foldfilter", ["foldfilter", "-w", "30"]), ("b64filter", ["b64filter"])):
        for label, lines in inputs(ctx, tool):
            if tool == "b64filter":
                data = b"".join(base64.b64encode(l + b"\nsecond line\n") + b"\n" for l in lines[:2000])
                want = data
            else:
                data = b"".join(l + b"\n" for l in lines)
                want = data
            for pol in ([["eager"]] if "repeats" in label else policies if ctx.tier != "quick" else rng.sample(policies, 2) + [["readall"]]):
                st, out, err, trace = wrappers.run_traced(ctx, base, data, pol, timeout=60, nice=rng.choice([None, None, 10]))
                ctx.count("wrapper-run", 1, [(tool, tuple(pol), label)])
                if st != 0 or out != want:
                    what = "did not terminate (deadlock)" if st == "HANG" else (f"status {st}" if st != 0 else "output incomplete or out of order")
                    pvlib.report_violation(ctx, f"wrapper:{tool}:{' '.join(pol)}:{label}", {
                        "argv": base + ["python3", "harness/children/child.py"] + pol, "stdin_hex": hx(data)[:200000], "input": label, "status": st,
                        "stdout_len": len(out), "want_len": len(want), "stderr": err.decode(errors="replace")[-300:]},
                        summary=f"{tool} with a child that answers '{' '.join(pol)}' on {label}: {what}")
                    continue
                r, ev = wrappers.accept(tool, trace)
                ctx.cov["traces_validated_against_impl"] = ctx.cov.get("traces_validated_against_impl", 0) + 1
                ctx.cov["trace_events_total"] = ctx.cov.get("trace_events_total", 0) + len(ev)
                if r.startswith("skipped"):
                    ctx.cov["traces_not_validated_acceptor_timeout"] = ctx.cov.get("traces_not_validated_acceptor_timeout", 0) + 1
                    ctx.cov["traces_validated_against_impl"] -= 1
                elif not r.startswith("accepted"):
                    pvlib.report_violation(ctx, f"corr:wrapper-trace:{tool}", {"tool": tool, "child": pol, "input": label, "verdict": r,
                                           "events_head": ev[:60], "correspondence": "PV_TRACE event log vs PV.Wrapper.astep (refined by the LTS)"},
                                           no_input=True, summary=f"{tool}: recorded event trace not accepted by the wrapper automaton: {r}")
                    break
    # record shapes: short inputs over {empty, a, b} with repeats in every position (an empty FIRST record, an empty answer before any
    # other, a repeat of the first record ...): state carried from one record to the next in either thread
    import itertools
    seqs = [t for n in range(1, 6) for t in itertools.product((b"", b"a", b"b"), repeat=n)]
    rng.shuffle(seqs)
    seqs.sort(key=lambda t: (t[0] != b"" or t.count(b"") < 2))        # the ones that start with a repeated empty record first
    for tool, base in (("cache", ["cache"]), ("foldfilter", ["foldfilter", "-w", "30"]), ("b64filter", ["b64filter"])):
        for t in seqs[:(45 if ctx.tier == "quick" else 363)]:
            if tool == "b64filter":
                data = b"".join(base64.b64encode(l + (b"\n" if i % 2 else b"")) + b"\n" for i, l in enumerate(t))
            else:
                data = b"".join(l + b"\n" for l in t)
            st, out, err = pvlib.run_tool([ctx.bin(base[0])] + base[1:] + ["cat"], data, env=pvlib.san_env(), timeout=20)
            ctx.count("wrapper-shapes", 1, [(tool, data)])
            if st != 0 or out != data:
                what = "did not terminate (deadlock)" if st == "HANG" else f"status {st}, output {out[:40]!r}"
                pvlib.report_violation(ctx, f"wrapper-shape:{tool}:{hx(data)}", {"argv": base + ["cat"], "stdin_hex": hx(data), "status": st,
                                       "stderr": err.decode(errors="replace")[-300:]},
                                       summary=f"{' '.join(base)} cat on {data!r}: {what}")
                break
    # more records in flight than any plausible bound on the backlog between the threads: 6000 documents with a child that reads
    # everything first, and 6000 EMPTY documents (one byte each to the child: thousands fit into the stream buffer unflushed) with cat
    for label, docs6k, child in (("6000 documents, child reads everything first", [b"doc %d\n" % i for i in range(6000)], [sys.executable, os.path.join(pvlib.VERIF, "harness", "children", "child.py"), "readall"]),
                                 ("6000 empty documents, cat", [b""] * 6000, ["cat"]), ("9000 one-line documents, cat", [b"x\n"] * 9000, ["cat"])):
        data = b"".join(base64.b64encode(d) + b"\n" for d in docs6k)
        st, out, err = pvlib.run_tool([ctx.bin("b64filter")] + child, data, env=pvlib.san_env(), timeout=60)
        ctx.count("wrapper-many-documents", 1, [label])
        if st != 0 or out != data:
            what = "did not terminate (deadlock)" if st == "HANG" else f"status {st}, {out.count(10)} of {len(docs6k)} output lines"
            pvlib.report_violation(ctx, f"wrapper-many-docs:{label}", {"argv": ["b64filter"] + [os.path.basename(c_) for c_ in child], "generator": label, "status": st,
                                   "stderr": err.decode(errors="replace")[-300:]}, summary=f"b64filter on {label}: {what}")
            break
    # paced input: the producer of stdin stalls around the queue-page multiples so that the output thread is fully caught up there
    for tool, base in (("cache", ["cache"]), ("foldfilter", ["foldfilter", "-w", "30"]), ("b64filter", ["b64filter"])):
        data, pauses = wrappers.paced_corpus(tool)
        st, out, err, trace = wrappers.run_traced(ctx, base, data, ["eager"], timeout=120, pauses=pauses)
        ctx.count("wrapper-paced", 1, [(tool, len(data))])
        if st != 0 or out != data:
            what = "did not terminate (deadlock)" if st == "HANG" else f"status {st}, {len(out)} of {len(data)} output bytes"
            pvlib.report_violation(ctx, f"wrapper-paced:{tool}", {
                "argv": base + ["python3", "harness/children/child.py", "eager"], "stdin_hex": hx(data)[:400000], "stdin_stalls_at_byte_offsets": pauses, "status": st,
                "stderr": err.decode(errors="replace")[-300:]},
                summary=f"{tool} with an identity child and stdin stalling around the queue-page multiples: {what}")
    # the bytes handed to the child add up to exact multiples of the 8 KiB stream buffer (8191 / 8192 / 8193, 3 x 8192), the input
    # then idles before it ends: the collector is caught up with an empty queue when end of input arrives
    for tool, base in (("foldfilter", ["foldfilter", "-w", "63"]), ("foldfilter", ["foldfilter"]), ("cache", ["cache"])):
        for total in (8191, 8192, 8193, 3 * 8192):
            ls, left, i = [], total, 0
            while left > 0:
                n = min(left, 64) if tool != "cache" else min(left, 57 + i % 7)
                body = (b"%06d" % i + b"abcdefghijklmnopqrstuvwxyz0123456789ABCDEFGHIJKLMNOPQRSTUVWXYZ-+")[:max(n - 1, 0)]
                ls.append(body)
                left -= len(body) + 1
                i += 1
            data = b"".join(l + b"\n" for l in ls)
            st, out, err, trace = wrappers.run_traced(ctx, base, data, ["eager"], timeout=60, linger_s=0.7)
            ctx.count("wrapper-buffer-multiple", 1, [(tool, tuple(base), total)])
            if st != 0 or out != data:
                what = "did not terminate (deadlock)" if st == "HANG" else f"status {st}, {len(out)} of {len(data)} output bytes"
                pvlib.report_violation(ctx, f"wrapper-bufmult:{tool}:{total}", {
                    "argv": base + ["python3", "harness/children/child.py", "eager"], "stdin_hex": hx(data), "stdin_stays_open_s": 0.7, "status": st,
                    "stderr": err.decode(errors="replace")[-300:]},
                    summary=f"{' '.join(base)} with an identity child, {total} bytes handed to the child, input idle before it ends: {what}")
                break


def paused_after_post(ctx):
    """the feeder is descheduled right AFTER a sem_post (it has made an entry available and not yet executed its next statement), for the
    posts around the queue's 1023-entry page boundaries; the collector is otherwise caught up, so it takes that very entry at once"""
    import subprocess
    shim = os.path.join(ctx.bdir, "harness", "faults_preload.so")
    for tool, argv in (("cache", ["cache"]), ("b64filter", ["b64filter"]), ("foldfilter", ["foldfilter", "-w", "30"])):
        data, _ = wrappers.paced_corpus(tool)
        # cache posts once per input line (hits included); b64filter once per document; foldfilter once per line
        for lo in ((1021, 2044, 4090, 5113) if tool == "cache" else (1021, 2044)):
            env = pvlib.san_env({"LD_PRELOAD": shim, "PV_DELAY_ONLY": tool, "PV_DELAY_AFTER_POST_US": f"150000:{lo}-{lo + 6}"})
            env["ASAN_OPTIONS"] += ":verify_asan_link_order=0"
            st, out, err = pvlib.run_tool([ctx.bin(argv[0])] + argv[1:] + ["cat"], data, env=env, timeout=120)
            ctx.count("wrapper-paused-after-post", 1, [(tool, lo)])
            if st != 0 or out != data:
                what = "did not terminate (deadlock)" if st == "HANG" else f"status {st}, {out.count(10)} of {data.count(10)} output lines"
                pvlib.report_violation(ctx, f"wrapper-post-pause:{tool}:{lo}", {"argv": argv + ["cat"], "stdin_hex": hx(data)[:400000], "status": st,
                                       "env": {"LD_PRELOAD": "harness/faults_preload.so", "PV_DELAY_ONLY": tool, "PV_DELAY_AFTER_POST_US": f"150000:{lo}-{lo + 6}"},
                                       "stderr": err.decode(errors="replace")[-300:]},
                                       summary=f"{' '.join(argv)} cat with the feeding thread paused for 150 ms after each of its semaphore posts number {lo}..{lo + 6}: {what}")
                return


def perturbed(ctx):
    """pin legal but unusual schedules with the LD_PRELOAD delay shim (nothing dropped or reordered): the feeder sleeps after
    every write to the child / the collector sleeps before every read from it."""
    import subprocess, sys
    shim = os.path.join(ctx.bdir, "harness", "faults_preload.so")
    text = b"hello world foo bar\nsecond, line - here\nthird\n"
    b64 = b"".join(base64.b64encode(l + b"\n") + b"\n" for l in text.split(b"\n")[:-1])
    for tool, argv, data in (("cache", ["cache"], text), ("foldfilter", ["foldfilter", "-w", "8"], text), ("b64filter", ["b64filter"], b64)):
        for var in ({"PV_DELAY_AFTER_WRITE_US": "120000"}, {"PV_DELAY_BEFORE_READ_US": "60000"}):
            env = pvlib.san_env(dict(var, LD_PRELOAD=shim, PV_DELAY_ONLY=tool))
            env["ASAN_OPTIONS"] += ":verify_asan_link_order=0"
            st, out, err = pvlib.run_tool([ctx.bin(argv[0])] + argv[1:] + ["cat"], data, env=env, timeout=40)
            ctx.count("wrapper-perturbed-schedule", 1, [(tool, tuple(var.items()))])
            if st != 0 or out != data:
                what = "did not terminate" if st == "HANG" else f"status {st}, {len(out)} of {len(data)} output bytes"
                pvlib.report_violation(ctx, f"wrapper-sched:{tool}:{list(var)[0]}", {
                    "argv": argv + ["cat"], "stdin_hex": hx(data), "env": dict(var, LD_PRELOAD="harness/faults_preload.so", PV_DELAY_ONLY=tool), "status": st,
                    "stderr": err.decode(errors="replace")[-300:]},
                    summary=f"{tool} cat under a legal schedule ({list(var.items())[0][0]}={list(var.items())[0][1]}): {what}")


def replay(ctx, rp):
    if "env" in rp:
        shim = os.path.join(ctx.bdir, "harness", "faults_preload.so")
        env = pvlib.san_env(dict(rp["env"], LD_PRELOAD=shim))
        env["ASAN_OPTIONS"] += ":verify_asan_link_order=0"
        st, out, err = pvlib.run_tool([ctx.bin(rp["argv"][0])] + rp["argv"][1:], pvlib.unhx(rp["stdin_hex"]), env=env, timeout=40)
        print("status", st, "stdout", out, err[-300:])
        return
    if "argv" in rp and ("stdin_stalls_at_byte_offsets" in rp or "stdin_stays_open_s" in rp):
        i = rp["argv"].index("python3")
        st, out, err, trace = wrappers.run_traced(ctx, rp["argv"][:i], pvlib.unhx(rp["stdin_hex"]), rp["argv"][i + 2:], timeout=120,
                                                  pauses=rp.get("stdin_stalls_at_byte_offsets"), linger_s=rp.get("stdin_stays_open_s", 0))
        print("status", st, "stdout bytes", len(out), err[-300:])
        return
    if "argv" in rp:
        argv = rp["argv"]
        i = argv.index("python3")
        st, out, err, trace = wrappers.run_traced(ctx, argv[:i], pvlib.unhx(rp["stdin_hex"]), argv[i + 2:], timeout=30)
        print("status", st, "stdout bytes", len(out), "trace events", len(trace))
