"""C01 — dedupe keeps exactly the first occurrence of every key, in input order."""
import bz2, gzip, itertools, lzma, os
import pvlib
from pvlib import hx, unhx

LEVEL = "proof"
RULE = ("real bin/dedupe vs the Lean model (hash table + Murmur + field selection) and vs the text-level spec (first occurrence "
        "of the selected fields): line sequences over {'', a, b, a<TAB>b, a<TAB>, a b} for key specs {none, 1, 2, 1-, -2, '2,1'} and "
        "delimiters tab/space; seeded random inputs (duplicates at any distance, NUL and non-UTF-8 bytes, missing final newline, lines "
        "longer than the 8 KiB buffer); backings pipe / regular file (mmap) / gzip / bzip2 / xz; one run with 120k (quick) or 3M "
        "(thorough) distinct keys through every doubling of the seen-set; idempotence; -p parallel mode incl. unbalanced inputs; "
        "non-trivial = distinct (args, input)")
ASSUMPTIONS = ["64-bit hash collisions excepted (documented); no generated line hashes to 0",
               "models of reader (C02 spec), fields (C10), Murmur (C14), table (C13) composed by hand"]

ATOMS = [b"", b"a", b"b", b"a\tb", b"a\t", b"a b"]
SPECS = [None, "1", "2", "1-", "-2", "2,1", "1,3-", "-1,3-", "1,3", "2-", "3-,1"]   # incl. lists with a hole that start at field 1 and are open-ended


M64 = (1 << 64) - 1


def murmur64a(data, seed):
    """reference MurmurHash64A (used only to CHOOSE lines by the bucket they will land in; the verdict never depends on it)"""
    m, r = 0xc6a4a7935bd1e995, 47
    h = (seed ^ (len(data) * m)) & M64
    n8 = len(data) // 8
    for i in range(n8):
        k = int.from_bytes(data[8 * i:8 * i + 8], "little")
        k = (k * m) & M64
        k ^= k >> r
        k = (k * m) & M64
        h ^= k
        h = (h * m) & M64
    tail = data[8 * n8:]
    if tail:
        h ^= int.from_bytes(tail, "little")
        h = (h * m) & M64
    h ^= h >> r
    h = (h * m) & M64
    h ^= h >> r
    return h


def rollover_inputs(rng, per_size):
    """Inputs built for ONE doubling N -> 2N of the seen-set with a long occupied run at bucket 0 and wrapped entries behind it:
    one line per home bucket 0..r-1 (r up to N/2 + 8, so far beyond any small fixed buffer), a cluster of lines whose home is among the
    last t buckets (more lines than buckets, so some wrap around to the end of the run), each with a random bit N (moves to the upper
    half or stays), fillers up to the growth threshold 3N/4, one more distinct line to force the doubling, then every line again."""
    by = {}
    sizes = (128, 256, 512, 1024)
    maxbits = 2 * sizes[-1]
    i = 0
    need = maxbits * 3
    while sum(len(v) for v in by.values()) < need and i < 400000:
        l = b"sentence number %d" % i
        i += 1
        hb = murmur64a(l, 1) % maxbits
        if len(by.setdefault(hb, [])) < 3:
            by[hb].append(l)
    out = []
    for N in sizes:
        T = (3 * N) // 4
        for _ in range(per_size):
            used, keys = set(), []

            def take(home, bitN):
                # a line whose hash is = home (mod N) with the wanted bit N; the higher bits are whatever the pool has
                cands = [l for hb in range(home + (N if bitN else 0), maxbits, 2 * N) for l in by.get(hb, []) if l not in used]
                if not cands:
                    return
                l = rng.choice(cands)
                used.add(l)
                keys.append(l)
            r = rng.choice([40, 63, 64, 65, 66, 70, 90, N // 2, N // 2 + 8])
            t = rng.choice([1, 2, 3, 5])
            w = rng.choice([1, 2, 3, 4])
            r = min(r, T - t - w - 2)
            run = list(range(r))
            tailhomes = [N - 1 - rng.randrange(t) for _ in range(t + w)] + list(range(N - t, N))
            order = rng.choice(["run-first", "tail-first", "mixed"])
            plan = [("run", b) for b in run] + [("tail", b) for b in tailhomes]
            if order == "tail-first":
                plan = plan[len(run):] + plan[:len(run)]
            elif order == "mixed":
                rng.shuffle(plan)
            for kind, b in plan:
                take(b, rng.random() < 0.5)
            mid = list(range(r + w + 3, N - t - 1))
            rng.shuffle(mid)
            for b in mid:
                if len(keys) >= T:
                    break
                take(b, rng.random() < 0.5)
            keys = keys[:T]
            trigger = b"the line that makes the table grow %d" % len(out)
            again = keys[:]
            rng.shuffle(again)
            out.append((N, r, t, w, order, keys + [trigger] + again))
    return out


def args_for(spec, d):
    a = []
    if spec is not None:
        a += ["-f", spec]
    if d != "\t":
        a += ["-d", d]
    return a


def model_op(spec, d, data):
    return f"tools.dedupe {hx((spec or '1-').encode())} {hx(d.encode())} {hx(data)}"


def run(ctx):
    rng = ctx.rng
    cases = []
    seqs = []
    for n in range(0, 5):
        seqs += list(itertools.product(ATOMS, repeat=n))
    rng.shuffle(seqs)
    for t in seqs[:(250 if ctx.tier == "quick" else 3000)]:
        data = b"".join(l + b"\n" for l in t)
        if t and rng.random() < 0.2:
            data = data[:-1]
        cases.append((rng.choice(SPECS), rng.choice(["\t", " "]), data, "pipe"))
    for _ in range(150 if ctx.tier == "quick" else 1500):
        nl = rng.randrange(0, 60)
        pool = [bytes(rng.choice(b"ab\t \x00\xff\xc3\xa9\r") for _ in range(rng.randrange(0, 6))) for _ in range(rng.randrange(1, 12))]
        if rng.random() < 0.15:
            pool.append(bytes(rng.choice(b"xyz\t") for _ in range(rng.choice([8191, 8192, 8193, 20000]))))
        lines = [rng.choice(pool) for _ in range(nl)]
        data = b"".join(l.replace(b"\n", b"") + b"\n" for l in lines)
        if lines and rng.random() < 0.2:
            data = data[:-1]
        cases.append((rng.choice(SPECS), rng.choice(["\t", " "]), data, rng.choice(["pipe", "pipe", "file", "gz", "bz2", "xz"])))
    # lines that differ only in the last 1-3 bytes, behind a byte >= 0x80 (every line length modulo 8, every position of the high byte in the
    # last word): different keys for the whole line and for a field
    for L in (4, 5, 6, 7, 12, 13, 14, 15, 21, 23):
        for hi in (0x80, 0xA9, 0xFF):
            base_ = bytearray(97 + (i * 3) % 26 for i in range(L))
            for pos in range(L - L % 8, L):
                fam = []
                for tail_ in (b"x", b"y", b"\x00", b"\xfe"):
                    b_ = bytearray(base_)
                    b_[pos] = hi
                    for q in range(pos + 1, L):
                        b_[q] = tail_[0]
                    fam.append(bytes(b_))
                fam = list(dict.fromkeys(fam))
                if len(fam) > 1:
                    data = b"".join(l + b"\n" for l in fam + fam[:2])
                    cases.append((None, "\t", data, "pipe"))
                    cases.append(("2", "\t", b"".join(b"k%d\t" % j + l + b"\n" for j, l in enumerate(fam + fam[:2])), "pipe"))
    pr_ = pvlib.low32_pair(1, b"line")
    if pr_:
        cases.append((None, "\t", pr_[0] + b"\n" + pr_[1] + b"\n" + pr_[0] + b"\n", "pipe"))
    ops = [model_op(s, d, x) for (s, d, x, b) in cases]
    model = pvlib.run_lines(pvlib.PVDRIVER, ops)
    spec = pvlib.run_lines(pvlib.PVDRIVER, [o.replace("tools.dedupe", "tools.spec.dedupe") for o in ops])
    backs = {}
    for (s, d, data, back), o, m, sp in zip(cases, ops, model, spec):
        argv = [ctx.bin("dedupe")] + args_for(s, d)
        if back == "pipe":
            st, out, err = pvlib.run_tool(argv, data, env=pvlib.san_env())
        else:
            payload = {"file": data, "gz": gzip.compress(data), "bz2": bz2.compress(data), "xz": lzma.compress(data)}[back]
            if back != "file" or not data[:6].startswith((b"\x1f\x8b", b"BZh", b"\xfd7zXZ")):
                f = os.path.join(ctx.tmp, "in." + back)
                open(f, "wb").write(payload)
                st, out, err = pvlib.run_tool(argv, env=pvlib.san_env(), stdin_file=f)
            else:
                continue
        backs[back] = backs.get(back, 0) + 1
        ctx.count("dedupe", 1, [(s, d, data, back)])
        got = f"ok {hx(out)}" if st == 0 else f"EXIT:{st}"
        if got != sp:
            pvlib.report_violation(ctx, "dedupe:" + o[:160], {"argv": ["dedupe"] + args_for(s, d), "stdin_hex": hx(data), "backing": back,
                                   "got": got[:400], "first_occurrence_of_selected_text": sp[:400], "stderr": err.decode(errors="replace")[-300:]},
                                   summary=f"dedupe {args_for(s, d)} ({back}) on {data[:60]!r}: output {unhx(got[3:])[:60] if got.startswith('ok ') else got!r} "
                                           f"but the first occurrences are {unhx(sp[3:])[:60]!r}")
            break
        kept = m.split()
        if not m.startswith("ok ") or got != " ".join(kept[:2]):
            pvlib.report_violation(ctx, "corr:tools.dedupe", {"ops": [o], "impl": got[:300], "model": m[:300],
                                   "correspondence": "PV.Tools.dedupe vs bin/dedupe"}, no_input=True,
                                   summary=f"dedupe model/impl differ on {o[:100]}")
            break
        if kept[2:] and (b"Kept %s / %s " % (kept[2].encode(), kept[3].encode())) not in err:
            pvlib.report_violation(ctx, "corr:dedupe-counters", {"ops": [o], "stderr": err.decode(errors="replace")[-200:], "model": kept[2:]},
                                   no_input=True, summary="dedupe 'Kept x / y' counters differ from the model")
            break
    ctx.cov["backings"] = backs
    # idempotence on the tool itself
    for (s, d, data, back) in cases[:40]:
        st, out, err = pvlib.run_tool([ctx.bin("dedupe")] + args_for(s, d), data, env=pvlib.san_env())
        st2, out2, err2 = pvlib.run_tool([ctx.bin("dedupe")] + args_for(s, d), out, env=pvlib.san_env())
        ctx.count("dedupe.idempotent", 1, [(s, d, data)])
        if st2 != 0 or out2 != out:
            pvlib.report_violation(ctx, "dedupe-idem:" + hx(data)[:80], {"argv": ["dedupe"] + args_for(s, d), "stdin_hex": hx(data)},
                                   summary="running dedupe on its own output changed it")
            break
    # growth: many distinct keys, duplicates of early keys late
    # (the seen-set doubles at 75% load; 450000 keys take it through malloc -> mmap (2 MiB) and two further growths)
    n = 450000 if ctx.tier == "quick" else 3000000
    lines = [b"k%d" % i for i in range(n)]
    dup_idx = [rng.randrange(n) for _ in range(2000)]
    data = b"".join(l + b"\n" for l in lines) + b"".join(lines[i] + b"\n" for i in dup_idx)
    st, out, err = pvlib.run_tool([ctx.bin("dedupe")], data, env=pvlib.san_env(), timeout=1200)
    ctx.count("dedupe.large", 1, [n])
    want = b"".join(l + b"\n" for l in lines)
    if st != 0 or out != want:
        ol = out.split(b"\n")
        k = next((i for i, (p, q) in enumerate(zip(ol, lines)) if p != q), min(len(ol), len(lines)))
        pvlib.report_violation(ctx, f"dedupe-large:{n}", {"argv": ["dedupe"], "generator": f"k0..k{n - 1} then 2000 repeats (seed {ctx.seed})",
                               "status": st, "first_diff_line": k},
                               summary=f"dedupe on {n} distinct keys + repeats: output differs from the distinct keys at line {k} (status {st})")
    # one doubling with a long run of occupied buckets at bucket 0 and wrapped entries behind it (lines chosen by their MurmurHash64A)
    ro = rollover_inputs(rng, 12 if ctx.tier == "quick" else 120)
    for N, r, t, w, order, ls in ro:
        fieldmode = rng.random() < 0.3          # -f 1: the key is the first field, hashed with the same seed; the rest of the line varies
        if fieldmode:
            ls = [l + b"\tcolumn %d" % j for j, l in enumerate(ls)]
        data = b"".join(l + b"\n" for l in ls)
        argv = ["-f", "1"] if fieldmode else []
        st, out, err = pvlib.run_tool([ctx.bin("dedupe")] + argv, data, env=pvlib.san_env(), timeout=120)
        ctx.count("dedupe.rollover", 1, [(N, r, t, w, order, fieldmode)])
        nd = (len(ls) + 1) // 2
        want = b"".join(l + b"\n" for l in ls[:nd])
        if st != 0 or out != want:
            ol = out.split(b"\n")[:-1]
            extra = [l for l in set(ol) if ol.count(l) > 1][:3]
            pvlib.report_violation(ctx, f"dedupe-rollover:N={N},run={r},tail={t}+{w},{order}", {"argv": ["dedupe"] + argv, "stdin_hex": hx(data), "status": st,
                                   "lines_out": len(ol), "distinct_lines_in": nd, "repeated_in_output": [x.decode(errors="replace") for x in extra]},
                                   summary=f"dedupe {argv} on {nd} distinct lines (chosen so that the seen-set has a run of {r} occupied buckets at bucket 0 and wrapped "
                                           f"entries when it doubles from {N} buckets) followed by all of them again: {len(ol)} lines out, expected {nd}"
                                           + (f"; {extra[0]!r} is written twice" if extra else "") + f" (status {st})")
            break
    ctx.cov["rollover_inputs"] = len(ro)
    # one line longer than the reader's buffer after two doublings (> 2 MiB, so the buffer itself moves from malloc to mmap)
    bigl = bytes(97 + (i * 7 + i // 251) % 26 for i in range(3_000_000))
    data = bigl + b"\nshort\n" + bigl + b"\nshort\n"
    st, out, err = pvlib.run_tool([ctx.bin("dedupe")], data, env=pvlib.san_env(), timeout=600)
    ctx.count("dedupe.longline", 1, [len(bigl)])
    if st != 0 or out != bigl + b"\nshort\n":
        k = next((i for i, (p_, q_) in enumerate(zip(out, bigl + b"\nshort\n")) if p_ != q_), min(len(out), len(bigl) + 7))
        pvlib.report_violation(ctx, "dedupe-longline", {"argv": ["dedupe"], "generator": "3,000,000-byte line, 'short', the same line, 'short' (pipe)", "status": st,
                               "output_bytes": len(out), "first_diff_byte": k},
                               summary=f"dedupe on a 3,000,000-byte line given twice (pipe): output has {len(out)} bytes, expected {len(bigl) + 7}; first difference at byte {k} (status {st})")
    # long lines FOLLOWING short ones (the long line does not start at the front of the read buffer when the buffer fills up), pipe and gzip
    for pre, ln in (([b"x"], 1202672), ([b"k%d" % i for i in range(300)], 700000), ([b"y" * 500000], 600000)):
        longl = bytes(97 + (i * 5 + i // 4099) % 26 for i in range(ln))
        ls = pre + [longl, b"x", longl, pre[0]]
        data = b"".join(l + b"\n" for l in ls)
        want = b"".join(l + b"\n" for l in dict.fromkeys(ls))
        for back in ("pipe", "gz"):
            if back == "pipe":
                st, out, err = pvlib.run_tool([ctx.bin("dedupe")], data, env=pvlib.san_env(), timeout=300)
            else:
                f = os.path.join(ctx.tmp, "longline.gz")
                open(f, "wb").write(gzip.compress(data, 1))
                st, out, err = pvlib.run_tool([ctx.bin("dedupe")], env=pvlib.san_env(), stdin_file=f, timeout=300)
            ctx.count("dedupe.long-after-short", 1, [(len(pre), ln, back)])
            if st != 0 or out != want:
                ol = out.split(b"\n")[:-1]
                pvlib.report_violation(ctx, f"dedupe-long-after-short:{len(pre)}:{ln}:{back}", {"argv": ["dedupe"], "backing": back, "status": st,
                                       "generator": f"{len(pre)} line(s) of {len(pre[0])} bytes, a {ln}-byte line (bytes 97 + (i*5 + i//4099) % 26), 'x', the long line again, the first line again",
                                       "lines_out": len(ol), "distinct_lines_in": len(dict.fromkeys(ls)), "line_lengths_out": [len(x) for x in ol[:8]]},
                                       summary=f"dedupe ({back}) on {len(pre)} short line(s) followed by a {ln}-byte line given twice: {len(ol)} lines out with lengths "
                                               f"{[len(x) for x in ol[:6]]}, expected the {len(dict.fromkeys(ls))} distinct lines (status {st})")
                break
    # regular files (mmap path) whose size sweeps the last page of the second 1 MiB + 4 KiB window and the pages around it: 100-byte
    # lines, the last few lines repeats of earlier ones; every size must give the first occurrences, as the same bytes on a pipe do
    win = 1052672
    sizes = sorted(set([2 * win - 4096 + d for d in range(-300, 4500, 100)] + [2 * win + d for d in (-100, 0, 100)] + [win + d for d in (-100, 0, 100, 4000)] + [rng.randrange(win, 3 * win) for _ in range(6)]))
    if ctx.tier == "quick":
        sizes = sizes[::3] + sizes[1:8]
    body = [b"a%09d " % i + bytes(33 + (i + j) % 90 for j in range(88)) for i in range(3 * win // 100 + 2)]
    fpath = os.path.join(ctx.tmp, "winfile.txt")
    for sz in sizes:
        nlines = sz // 100
        ls = body[:nlines - 3] + body[5:8]
        data = b"".join(l + b"\n" for l in ls)
        open(fpath, "wb").write(data)
        st, out, err = pvlib.run_tool([ctx.bin("dedupe")], env=pvlib.san_env(), stdin_file=fpath, timeout=120)
        ctx.count("dedupe.file-window-sizes", 1, [sz])
        want = b"".join(l + b"\n" for l in body[:nlines - 3])
        if st != 0 or out != want:
            pvlib.report_violation(ctx, f"dedupe-file-size:{len(data)}", {"argv": ["dedupe"], "backing": "regular file (mmap)", "status": st,
                                   "generator": f"{nlines - 3} distinct 100-byte lines 'a%09d ' + 88 bytes, then lines 5..7 again: {len(data)} bytes",
                                   "output_bytes": len(out), "expected_bytes": len(want), "last_output_line": out.split(b"\n")[-2][:40].decode(errors="replace") if out.count(b"\n") else ""},
                                   summary=f"dedupe < regular file of {len(data)} bytes ({nlines} lines of 100 bytes): {len(out)} bytes out, expected the {len(want)} bytes of the distinct lines (status {st})")
            break
    # parallel mode
    corr_break = None
    for _ in range(40 if ctx.tier == "quick" else 400):
        k = rng.randrange(0, 12)
        a = [rng.choice([b"a", b"b", b"c", b"d", b"a\tx"]) for _ in range(k)]
        b = [rng.choice([b"1", b"2", b"3", b"4", b"1\tx"]) for _ in range(k + rng.choice([0, 0, 0, 1, 2]))]
        d0 = b"".join(x + b"\n" for x in a)
        d1 = b"".join(x + b"\n" for x in b)
        s = rng.choice([None, "1", "2", "1,3-"])
        f = [os.path.join(ctx.tmp, n_) for n_ in ("in0", "in1", "out0", "out1")]
        open(f[0], "wb").write(d0)
        open(f[1], "wb").write(d1)
        for o_ in f[2:]:
            if os.path.exists(o_):
                os.unlink(o_)
        st, out, err = pvlib.run_tool([ctx.bin("dedupe")] + args_for(s, "\t") + ["-p"] + f, env=pvlib.san_env())
        o0 = open(f[2], "rb").read() if os.path.exists(f[2]) else b""
        o1 = open(f[3], "rb").read() if os.path.exists(f[3]) else b""
        op = f"tools.dedupepar {hx((s or '1-').encode())} 09 {hx(d0)} {hx(d1)}"
        m = pvlib.run_lines(pvlib.PVDRIVER, [op, op.replace("tools.dedupepar", "tools.spec.dedupepar")])
        ctx.count("dedupe.par", 1, [(s, d0, d1)])
        got = ("ok" if st == 0 else "UNBALANCED" if st == 2 else f"EXIT:{st}") + f" {hx(o0)} {hx(o1)}"
        if len(b) == len(a) and got != m[1]:
            pvlib.report_violation(ctx, "dedupe-par:" + op[:160], {"argv": ["dedupe", "-p", "in0", "in1", "out0", "out1"], "in0": hx(d0), "in1": hx(d1),
                                   "got": got, "spec": m[1]},
                                   summary=f"dedupe -p on {a!r} / {b!r}: outputs {o0!r} / {o1!r} differ from the pair specification")
            break
        if got != m[0] and corr_break is None:
            corr_break = (op, got, m[0])          # keep looking: a balanced case may show the violation itself
    else:
        if corr_break:
            op, got, m0 = corr_break
            pvlib.report_violation(ctx, "corr:tools.dedupepar", {"ops": [op], "impl": got, "model": m0}, no_input=True,
                                   summary=f"dedupe -p model/impl differ: {got[:80]} vs {m0[:80]}")


def replay(ctx, rp):
    pvlib.generic_replay(ctx, rp)
