"""C16 — thread hand-off queues deliver every item once, in order, without deadlock."""
import os, subprocess
from concurrent.futures import ThreadPoolExecutor
import pvlib

LEVEL = "proof"
RULE = ("the real util::PCQueue, util::UnboundedSingleQueue and util::ThreadedBufferedStream/BlockQueue templates run under a "
        "controlled scheduler (util::Semaphore delegates to the harness through the PREPROCESS_VERIF hooks; exactly one thread runs "
        "between semaphore operations): depth-first enumeration of ALL interleavings of small scenarios (capacity 1..3, 1-2 producers "
        "x 1-2 consumers, <= 4 items; 3-item SPSC queue; short write sequences on the ring) up to a per-scenario cap, and seeded "
        "random schedules for 1030 items across the 1023-entry page boundary and for writes {1,8191,8192,8193,20000} wrapping the "
        "3-block ring several times; every executed interleaving's event list must be accepted by the Lean LTS (no slot/page/block "
        "conflict, every step enabled), end in its final state, deliver FIFO / the exact bytes, and never deadlock; non-trivial = "
        "distinct (scenario, interleaving)")
ASSUMPTIONS = ["sequentially consistent execution between semaphore operations (weak-memory effects and sem_t itself are not modelled)",
               "the mutexes inside PCQueue are never contended under the serialising scheduler; their effect is in the LTS proof"]


HANGS = [0]


def run_sched(exe, args, choices):
    if HANGS[0] >= 2:
        return "SKIPPED", [], [], "result skipped after two runs without an answer", ""
    try:
        p = subprocess.run([exe] + args + [",".join(map(str, choices)) if choices else "-"], stdout=subprocess.PIPE, stderr=subprocess.PIPE,
                           env=pvlib.san_env(), timeout=120)
    except subprocess.TimeoutExpired:
        HANGS[0] += 1
        # the controller reports deadlocks and stalls itself; no answer at all means a thread spins without reaching a
        # scheduling point (a loop that makes no progress)
        return "HANG", ["STALL"], [], "no result within 120 s (a thread runs forever between two scheduling points)", ""
    out = p.stdout.decode(errors="replace").split("\n")
    trace = out[0].split()[1:] if out and out[0].startswith("trace") else []
    branch = [int(x) for x in out[1].split()[1:]] if len(out) > 1 and out[1].startswith("branch") else []
    result = out[2] if len(out) > 2 else ""
    return p.returncode, trace, branch, result, p.stderr.decode(errors="replace")[-400:]


def dfs(exe, args, cap):
    """enumerate interleavings depth first; yields (choices, rc, trace, result, err); stops after `cap` runs"""
    stack = [[]]
    n = 0
    exhausted = True
    while stack:
        if n >= cap:
            exhausted = False
            break
        prefix = stack.pop()
        rc, trace, branch, result, err = run_sched(exe, args, prefix)
        n += 1
        yield prefix, rc, trace, result, err
        full = prefix + [0] * (len(branch) - len(prefix))
        for i in range(len(branch) - 1, len(prefix) - 1, -1):
            for c in range(1, branch[i]):
                stack.append(full[:i] + [c])
    dfs.exhausted = exhausted


def run(ctx):
    HANGS[0] = 0
    rng = ctx.rng
    exe = os.path.join(ctx.bdir, "harness", "implsched")
    cap = 150 if ctx.tier == "quick" else 4000
    scen = []
    for c in (1, 2, 3):
        scen.append(("pcq", [str(c), "2", "2"]))
        scen.append(("pcq", [str(c), "2,1", "1,2"]))
        scen.append(("pcq", [str(c), "1,1", "2"]))
    scen.append(("pcq", ["2", "2,2", "3,1"]))
    # ProduceSwap (warc_parallel's readers): several producers
    scen.append(("pcqs", ["2", "2,2", "4"]))
    scen.append(("pcqs", ["3", "2,1,1", "2,2"]))
    scen.append(("pcqs", ["1", "1,1", "2"]))
    scen.append(("usq", ["3"]))
    scen.append(("ring", ["-"]))
    scen.append(("ring", ["5"]))
    scen.append(("ring", ["8192,1"]))
    scen.append(("ring", ["8193,8191"]))
    jobs = []
    for kind, args in scen:
        for item in dfs(exe, [kind] + args, cap):
            jobs.append((kind, args, item))
        ctx.cov.setdefault("scenarios", []).append({"scenario": " ".join([kind] + args), "interleavings": sum(1 for j in jobs if j[0] == kind and j[1] == args),
                                                    "exhaustive": getattr(dfs, "exhausted", False)})
    # random schedules for the large scenarios
    big = [("usq", ["1030"]), ("ring", ["1,8191,8192,8193,20000,1,8192,8192,8192,5"]), ("ring", ["20000,20000,20000,20000"]), ("ring", ["8192,8192,8192,8192,8192,8192,8192"]),
           ("pcq", ["3", "40,40", "30,50"]), ("pcqs", ["4", "30,30,30", "45,45"]),
           # numbers and single characters between writes: operator<< reserves room first and may hand a short block over
           ("ring", ["8182,u20,32768,5"]), ("ring", ["8190,c,c,u1,8192,8192,8192,u20,8185,u10,8192,8192,8192,8192"]),
           ("ring", [",".join(["700,u%d,c" % (1 + i % 20) for i in range(120)])])]
    for kind, args in big:
        # fixed policies first: always the last enabled thread (the consumer side stays caught up and runs inside every
        # post/continue window), strict alternation, always the first; then seeded random schedules
        for ch in (["hi"], ["alt"], []):
            rc, trace, branch, result, err = run_sched(exe, [kind] + args, ch)
            jobs.append((kind, args, (ch, rc, trace, result, err)))
        for k in range(6 if ctx.tier == "quick" else 60):
            ch = ["r%d" % (ctx.seed * 100 + k)]
            rc, trace, branch, result, err = run_sched(exe, [kind] + args, ch)
            jobs.append((kind, args, (ch, rc, trace, result, err)))
    ops = []
    for kind, args, (ch, rc, trace, result, err) in jobs:
        ops.append(f"queue.accept {'pcq' if kind == 'pcqs' else kind} {' '.join(args)} " + " ".join(t for t in trace if ":" in t))
    verdicts = pvlib.run_lines(pvlib.PVDRIVER, ops, timeout=1200)
    ctx.cov["traces_validated_against_impl"] = len(ops)
    for (kind, args, (ch, rc, trace, result, err)), v in zip(jobs, verdicts):
        ctx.count("interleaving", 1, [(kind, tuple(args), tuple(trace))])
        rp = {"scenario": [kind] + args, "choices": ch, "status": rc, "trace": trace[:400], "result": result, "lts": v, "stderr": err,
              "rerun": f"harness/implsched {kind} {' '.join(args)} {','.join(map(str, ch)) if ch else '-'}"}
        if rc == "SKIPPED":
            continue
        if "DEADLOCK" in trace or "STALL" in trace:
            pvlib.report_violation(ctx, f"sched-deadlock:{kind}:{' '.join(args)}:{ch}", rp,
                                   summary=f"{kind} {' '.join(args)}: the real code " + ("does not terminate" if rc == "HANG" else "deadlocks") + f" under schedule {ch}" + (f" ({result})" if rc == "HANG" else ""))
        elif rc != 0 or "BROKEN" in result or "DIFFER" in result:
            pvlib.report_violation(ctx, f"sched-result:{kind}:{' '.join(args)}:{ch}", rp,
                                   summary=f"{kind} {' '.join(args)} under schedule {ch}: {result or 'status %s' % rc} {pvlib.san_kind(err.encode()) or ''}")
        elif not v.startswith("accepted") or "final=true" not in v or "fifo=false" in v or "file-ok=false" in v:
            if v.startswith("rejected") and "conflict" in v:
                pvlib.report_violation(ctx, f"sched-conflict:{kind}:{' '.join(args)}:{ch}", rp,
                                       summary=f"{kind} {' '.join(args)} under schedule {ch}: {v} (a slot/page/block handed out while in use)")
            else:
                pvlib.report_violation(ctx, f"corr:queue:{kind}", rp, no_input=True,
                                       summary=f"{kind} {' '.join(args)}: executed interleaving not accepted by the LTS: {v[:120]}")
        elif kind in ("pcq", "pcqs"):
            # delivered values must match what the LTS says each consumer got
            want = v.split(" got ", 1)[1].strip()
            got = result.replace("result ", "", 1).strip()
            if " ".join(want.split()) != " ".join(got.split()):
                pvlib.report_violation(ctx, f"sched-values:{kind}:{' '.join(args)}:{ch}", rp,
                                       summary=f"pcq {' '.join(args)} under schedule {ch}: consumers received {got!r}, the LTS (FIFO) says {want!r}")

    # ---- the REAL util::Semaphore under interrupted waits.  The controlled scheduler above replaces the semaphore through the
    # pv_sem_* hooks (that is how it owns the interleaving), so it never runs the lines of Semaphore::wait() that deal with EINTR.
    # harness/implsig runs the queues on the real semaphore while SIGUSR1 (handler without SA_RESTART) is sent to both threads every
    # few microseconds: a wait that was interrupted is not an acquisition - every item still arrives once, in order.
    sig = os.path.join(ctx.bdir, "harness", "implsig")
    sops = [f"sig.pcq {c_} {n_} {ctx.seed * 10 + k_} {iv_}" for k_, (c_, n_, iv_) in enumerate([(1, 20000, 50), (2, 20000, 50), (16, 50000, 20)] + ([] if ctx.tier == "quick" else [(3, 200000, 10), (64, 500000, 30)]))]
    sops += [f"sig.usq {n_} {ctx.seed * 10 + 7} {iv_}" for n_, iv_ in ([(50000, 50)] if ctx.tier == "quick" else [(50000, 50), (1000000, 15)])]
    for o in sops:
        try:
            x = pvlib.run_lines(sig, [o], env=pvlib.san_env(), timeout=400, stall=300)[0]
        except Exception as e:
            x = "HANG " + repr(e)[:100]
        ctx.count("real-semaphore-under-signals", 1, [o])
        ctx.cov.setdefault("signals_delivered", []).append(x.split("signals=")[-1] if "signals=" in x else "?")
        if not x.startswith("ok fifo " + o.split()[2 if o.startswith("sig.pcq") else 1] + " "):
            pvlib.report_violation(ctx, "queue-under-signals:" + o, {"ops": [o], "impl": x[:300], "rerun": f"echo '{o}' | harness/implsig"},
                                   summary=f"{o} (real semaphores, SIGUSR1 without SA_RESTART sent to both threads): {x[:120]}; every item must arrive once, in order")
            break


def replay(ctx, rp):
    exe = os.path.join(ctx.bdir, "harness", "implsched")
    rc, trace, branch, result, err = run_sched(exe, rp["scenario"], rp["choices"])
    print("status", rc, "\ntrace", " ".join(trace)[:2000], "\n", result)
