"""C11 — I/O errors and child failures are never reported as success."""
import base64, os, re, sys
import pvlib, toolset
from pvlib import hx

LEVEL = "proof"
RULE = ("status logic proved over the table of preprocess::Wait() results regenerated from the built code (children exiting with codes "
        "and dying of every fatal signal are forked by the translator); fault enumeration on the real binaries: for every executable "
        "and every k up to the number of read/write/fsync/close calls of a small run, fail the k-th call with ENOSPC / EIO / EPIPE via "
        "the LD_PRELOAD shim and require a non-zero status; for cache / foldfilter / b64filter a scripted child exits with code c or "
        "kills itself with SIGKILL/SIGTERM/SIGSEGV after answering k lines for every k in 0..n, and exits c after answering "
        "everything; for every tool the output device filling up after L bytes (the crossing write is short, later ones fail with ENOSPC), L over the "
        "8 KiB buffer multiples +-1, 0, 1, half, total-1 and seeded values, must give a non-zero status; with strace, the k-th read(2) of a regular-file stdin failing with EIO and the k-th write(2) to a "
        "regular-file stdout failing once with ENOSPC (this reaches calls made inside the C library, i.e. the stdio / iostream tools); the wrapper must end within the timeout with a non-zero status (resp. exactly c); non-trivial = distinct "
        "(tool, op, k, errno) with the fault fired, or distinct (wrapper, child ending, k)")
ASSUMPTIONS = ["a fault on descriptor 2 (stderr) is out of scope", "the shim does not affect glibc-internal stdio calls",
               "exit status 0 is judged as 'success'; sanitizer aborts and signals count as non-zero"]

CHILD = os.path.join(pvlib.VERIF, "harness", "children", "child.py")
DECOY = os.path.join(pvlib.VERIF, "harness", "children", "with_decoy.py")


# tools that fsync a regular-file stdout on the pinned tree (FileStream / FileWriter flush -> FSyncIgnoreUnsupported); a tool in this
# set must report a failing fsync of its output file, whether or not it still attempts the call
SYNCS = {"cache": True, "cache-k": True, "foldfilter": True, "foldfilter-s": True, "b64filter": True}


def nonzero(st):
    return st != 0 and st != "HANG"


def run(ctx):
    rng = ctx.rng
    shim = os.path.join(ctx.bdir, "harness", "faults_preload.so")

    def env_faults(spec, rep):
        e = pvlib.san_env({"LD_PRELOAD": shim, "PV_FAULTS": spec, "PV_FAULT_REPORT": rep})
        e["ASAN_OPTIONS"] += ":verify_asan_link_order=0"
        return e
    # ---- (a) child endings
    n = 6
    text = b"".join(b"line %d\n" % i for i in range(n))
    b64 = b"".join(base64.b64encode(b"doc %d\n" % i) + b"\n" for i in range(n))
    wrappers = [("cache", ["cache"], text), ("foldfilter", ["foldfilter", "-w", "40"], text), ("b64filter", ["b64filter"], b64)]
    for name, argv, data in wrappers:
        for k in range(0, n + 1):
            for end in (["exit", "1"], ["exit", "2"], ["exit", "255"], ["sig", "9"], ["sig", "15"], ["sig", "11"]):
                if ctx.tier == "quick" and end[1] in ("2", "15") and k not in (0, n):
                    continue
                full = [ctx.bin(argv[0])] + argv[1:] + [sys.executable, CHILD, "die", str(k)] + end
                st, out, err = pvlib.run_tool(full, data, env=pvlib.san_env(), timeout=20)
                ctx.count("child-ending", 1, [(name, k, tuple(end))])
                if not nonzero(st):
                    pvlib.report_violation(ctx, f"child:{name}:{k}:{'-'.join(end)}", {
                        "argv": argv + ["python3", "harness/children/child.py", "die", str(k)] + end, "stdin_hex": hx(data), "status": st,
                        "stderr": err.decode(errors="replace")[-300:]},
                        summary=f"{name}: child answered {k} of {n} lines then {'exited ' + end[1] if end[0] == 'exit' else 'died of signal ' + end[1]}; "
                                f"wrapper status {st} ({'hang' if st == 'HANG' else 'reported success'})")
        # the wrapper starts with an unrelated, already terminated child of its own (inherited across execve, as after a
        # shell's process substitution): its status must still be the captive child's
        for end in (["exit", "7"], ["sig", "9"], ["exit", "0"]):
            full = [sys.executable, DECOY, ctx.bin(argv[0])] + argv[1:] + [sys.executable, CHILD, "afterall"] + end
            st, out, err = pvlib.run_tool(full, data, env=pvlib.san_env(), timeout=20)
            ctx.count("child-ending-with-inherited-child", 1, [(name, tuple(end))])
            want_ok = end == ["exit", "0"]
            if (st == 0) != want_ok or (end[0] == "exit" and st != int(end[1])):
                pvlib.report_violation(ctx, f"decoy:{name}:{'-'.join(end)}", {
                    "argv": ["python3", "harness/children/with_decoy.py"] + argv + ["python3", "harness/children/child.py", "afterall"] + end,
                    "stdin_hex": hx(data), "status": st, "stderr": err.decode(errors="replace")[-300:]},
                    summary=f"{name} started with an unrelated terminated child process: captive child answered everything then "
                            f"{'exited ' + end[1] if end[0] == 'exit' else 'died of signal ' + end[1]}; wrapper status {st}")
        for c in (0, 1, 3, 129, 137, 143, 147, 192, 255):
            full = [ctx.bin(argv[0])] + argv[1:] + [sys.executable, CHILD, "afterall", "exit", str(c)]
            st, out, err = pvlib.run_tool(full, data, env=pvlib.san_env(), timeout=20)
            ctx.count("child-exit-code", 1, [(name, c)])
            if st != c:
                pvlib.report_violation(ctx, f"childcode:{name}:{c}", {"argv": argv + ["child.py", "afterall", "exit", str(c)], "stdin_hex": hx(data), "status": st},
                                       summary=f"{name}: child answered everything and exited {c}; wrapper status {st}")
    # ---- (b) failing system calls
    errnos = [28] if ctx.tier == "quick" else [28, 5, 32]
    fired_runs = 0
    for (label, tool, args, stdin, outs) in toolset.invocations(ctx.tmp, rng, 20):
        rep = os.path.join(ctx.tmp, "rep.txt")
        if os.path.exists(rep):
            os.unlink(rep)
        st0, out0, err0 = pvlib.run_tool([ctx.bin(tool)] + args, stdin, env=env_faults("w999999=e5", rep), timeout=60)
        cnt = {"r": 0, "w": 0, "f": 0, "c": 0}
        if os.path.exists(rep):
            for ln in open(rep):          # one line per process (parent + forked children)
                for m in re.finditer(r"\b([rwfc])=(\d+)", ln):
                    cnt[m.group(1)] = max(cnt[m.group(1)], int(m.group(2)))
        if st0 != 0:
            ctx.notes.append(f"{label}: baseline status {st0}, skipped")
            continue
        for op_ in "wrfc":
            top = min(cnt[op_], 12 if ctx.tier == "quick" else 60)
            for k in range(1, top + 1):
                for en in errnos:
                    if os.path.exists(rep):
                        os.unlink(rep)
                    for f in outs:
                        if os.path.exists(f):
                            os.unlink(f)
                    st, out, err = pvlib.run_tool([ctx.bin(tool)] + args, stdin, env=env_faults(f"{op_}{k}=e{en}", rep), timeout=60)
                    fired = 0
                    if os.path.exists(rep):
                        fired = sum(int(m.group(1)) for ln in open(rep) for m in re.finditer(r"fired=(\d+)", ln))
                    if not fired:
                        continue
                    fired_runs += 1
                    ctx.count("failing-syscall", 1, [(label, op_, k, en)])
                    if not nonzero(st):
                        pvlib.report_violation(ctx, f"syscall:{label}:{op_}{k}:e{en}", {
                            "argv": [tool] + args, "stdin_hex": hx(stdin)[:20000], "env": {"PV_FAULTS": f"{op_}{k}=e{en}"}, "status": st,
                            "stdout_len": len(out), "stderr": err.decode(errors="replace")[-300:]},
                            summary=f"{label}: the {k}-th {dict(w='write', r='read', f='fsync', c='close')[op_]} failed with errno {en} and the "
                                    f"tool {'hung' if st == 'HANG' else 'exited 0'}")
                        break
                else:
                    continue
                break
    ctx.cov["runs_with_fault_fired"] = fired_runs
    # ---- (c) stdout on a full device (also reaches stdio/iostream based tools, whose writes glibc issues internally)
    import subprocess
    for (label, tool, args, stdin, outs) in toolset.invocations(ctx.tmp, rng, 50):
        st0, out0, err0 = pvlib.run_tool([ctx.bin(tool)] + args, stdin, env=pvlib.san_env(), timeout=60)
        if st0 != 0 or not out0:
            continue           # nothing is written to stdout in this invocation
        with open("/dev/full", "wb") as full:
            try:
                p = subprocess.run([ctx.bin(tool)] + args, input=stdin, stdout=full, stderr=subprocess.PIPE, env=pvlib.san_env(), timeout=60)
                st = p.returncode if p.returncode >= 0 else "sig%d" % -p.returncode
            except subprocess.TimeoutExpired:
                st = "HANG"
        ctx.count("stdout-dev-full", 1, [label])
        if not nonzero(st):
            pvlib.report_violation(ctx, f"devfull:{label}", {"argv": [tool] + args, "stdin_hex": hx(stdin)[:20000], "stdout": "/dev/full", "status": st},
                                   summary=f"{label}: every write to stdout failed with ENOSPC (> /dev/full) and the tool {'hung' if st == 'HANG' else 'exited 0'}")
    # ---- (d) the output device fills up after L bytes: the crossing write is short, later writes fail with ENOSPC
    full_runs = 0
    for (label, tool, args, stdin, outs) in toolset.invocations(ctx.tmp, rng, 300):
        for f in outs:
            if os.path.exists(f):
                os.unlink(f)
        st0, out0, err0 = pvlib.run_tool([ctx.bin(tool)] + args, stdin, env=pvlib.san_env(), timeout=60)
        total = sum(os.path.getsize(f) for f in outs if os.path.exists(f)) if outs else len(out0)
        if st0 != 0 or total == 0:
            continue
        fd = -1 if outs else 1
        lims = {0, 1, total // 2, total - 1}
        for k in range(1, total // 8192 + 1):
            lims |= {8192 * k - 1, 8192 * k, 8192 * k + 1}
        lims |= {rng.randrange(total) for _ in range(3 if ctx.tier == "quick" else 40)}
        for lim in sorted(l for l in lims if 0 <= l < total):
            rep = os.path.join(ctx.tmp, "rep.txt")
            if os.path.exists(rep):
                os.unlink(rep)
            for f in outs:
                if os.path.exists(f):
                    os.unlink(f)
            fenv = {"PV_FAULT_FULL": f"{fd}:{lim}:{tool}"}
            e = pvlib.san_env(dict(fenv, LD_PRELOAD=shim, PV_FAULT_REPORT=rep))
            e["ASAN_OPTIONS"] += ":verify_asan_link_order=0"
            st, out, err = pvlib.run_tool([ctx.bin(tool)] + args, stdin, env=e, timeout=60)
            fired = os.path.exists(rep) and any("fired=" in ln for ln in open(rep))
            if not fired:
                continue
            full_runs += 1
            ctx.count("device-full-after", 1, [(label, lim)])
            if not nonzero(st):
                got = sum(os.path.getsize(f) for f in outs if os.path.exists(f)) if outs else len(out)
                pvlib.report_violation(ctx, f"full:{label}:{lim}", {
                    "argv": [tool] + args, "stdin_hex": hx(stdin)[:20000], "env": fenv, "status": st, "bytes_accepted": got, "bytes_of_complete_output": total,
                    "stderr": err.decode(errors="replace")[-300:]},
                    summary=f"{label}: the output device filled up after {lim} of {total} bytes (short write, then ENOSPC) and the tool "
                            f"{'hung' if st == 'HANG' else 'exited 0'} with {got} bytes written")
                break
    ctx.cov["runs_with_device_full"] = full_runs
    # ---- (d') the output is a regular file whose fsync fails (a write-back error): every tool that syncs its output must report it,
    # also when it has synced (or tried to sync) other descriptors before
    import subprocess as _sp
    for (label, tool, args, stdin, outs) in toolset.invocations(ctx.tmp, rng, 50):
        if outs:
            continue
        outf = os.path.join(ctx.tmp, "fsync_out")

        def run_to_file(env):
            with open(outf, "wb") as fo:
                try:
                    p = _sp.run([ctx.bin(tool)] + args, input=stdin, stdout=fo, stderr=_sp.PIPE, env=env, timeout=60)
                    return (p.returncode if p.returncode >= 0 else "sig%d" % -p.returncode), p.stderr
                except _sp.TimeoutExpired:
                    return "HANG", b""
        rep = os.path.join(ctx.tmp, "rep.txt")
        # does the unfaulted run sync a regular file at all?  (count with a harmless errno-less probe: run under strace if available)
        e0 = pvlib.san_env({"LD_PRELOAD": shim, "PV_FAULT_REPORT": rep})
        e0["ASAN_OPTIONS"] += ":verify_asan_link_order=0"
        st0, _ = run_to_file(e0)
        if st0 != 0:
            continue
        for en in (5, 28):
            if os.path.exists(rep):
                os.unlink(rep)
            e = pvlib.san_env({"LD_PRELOAD": shim, "PV_FAULT_FSYNC_REGULAR": str(en), "PV_FAULT_REPORT": rep})
            e["ASAN_OPTIONS"] += ":verify_asan_link_order=0"
            st, err = run_to_file(e)
            fired = os.path.exists(rep) and any("fired=" in ln for ln in open(rep))
            ctx.count("fsync-of-output-file-fails", 1, [(label, en)])
            synced = SYNCS.setdefault(label, fired)          # on the unchanged tree: does this tool sync its output file?
            if synced and not nonzero(st):
                pvlib.report_violation(ctx, f"fsyncreg:{label}:{en}", {"argv": [tool] + args, "stdin_hex": hx(stdin)[:20000], "stdout": "a regular file",
                                       "env": {"PV_FAULT_FSYNC_REGULAR": str(en)}, "status": st, "fsync_of_the_file_attempted": fired,
                                       "stderr": err.decode(errors="replace")[-300:]},
                                       summary=f"{label}: stdout is a regular file whose fsync fails with errno {en}; the tool "
                                               f"{'hung' if st == 'HANG' else 'exited 0'}" + ("" if fired else " without ever syncing the file"))
                break
    # ---- (e) system-call faults injected from outside the process (strace), which also reach calls the C library issues
    # internally (stdio / iostream based tools): the k-th read(2) of a regular-file stdin fails with EIO; the k-th
    # write(2) to a regular-file stdout fails with ENOSPC while later ones succeed (a transient fault)
    import shutil, subprocess
    ptrace_runs = 0
    if shutil.which("strace"):
        infile, outfile, log = (os.path.join(ctx.tmp, n_) for n_ in ("strace_in", "strace_out", "strace_log"))
        for (label, tool, args, stdin, outs) in toolset.invocations(ctx.tmp, rng, 300):
            if outs or not stdin:
                continue
            open(infile, "wb").write(stdin)
            for op_, path, err_ in (("read", infile, "EIO"), ("write", outfile, "ENOSPC")):
                for k in (1, 2, 3, 5, 8):
                    with open(infile, "rb") as fin, open(outfile, "wb") as fout:
                        try:
                            p = subprocess.run(["strace", "-f", "-o", log, "-e", "trace=" + op_, "-P", path, "-e", f"inject={op_}:error={err_}:when={k}",
                                                ctx.bin(tool)] + args, stdin=fin, stdout=fout, stderr=subprocess.PIPE, env=pvlib.san_env(), timeout=120)
                            st = p.returncode if p.returncode >= 0 else "sig%d" % -p.returncode
                            err = p.stderr
                        except subprocess.TimeoutExpired:
                            st, err = "HANG", b""
                    injected = os.path.exists(log) and "(INJECTED)" in open(log, errors="replace").read()
                    if not injected:
                        if b"ptrace" in err or b"PTRACE" in err:
                            ctx.notes.append("strace cannot attach in this environment; part (e) skipped")
                        break       # fewer than k such calls (or the input is mapped, not read)
                    ptrace_runs += 1
                    ctx.count("injected-syscall-fault", 1, [(label, op_, k)])
                    if not nonzero(st):
                        got = os.path.getsize(outfile)
                        pvlib.report_violation(ctx, f"strace:{label}:{op_}{k}", {
                            "argv": [tool] + args, "stdin_hex": hx(stdin)[:40000], "stdin": "a regular file", "stdout": "a regular file",
                            "strace": f"-f -e trace={op_} -P <{'stdin' if op_ == 'read' else 'stdout'} file> -e inject={op_}:error={err_}:when={k}", "status": st,
                            "bytes_written": got, "stderr": err.decode(errors="replace")[-300:]},
                            summary=f"{label}: the {k}-th {op_}(2) of its {'input' if op_ == 'read' else 'output'} failed with {err_} "
                                    f"(injected with strace{', later writes succeed' if op_ == 'write' else ''}) and the tool "
                                    f"{'hung' if st == 'HANG' else 'exited 0'} ({got} bytes written)")
                        break
    else:
        ctx.notes.append("strace not available; part (e) skipped")
    ctx.cov["runs_with_injected_syscall_fault"] = ptrace_runs

    # ---- (f) COMPRESSED stdin arriving in small pieces (a pipe fed by a slow producer): the decoders fill their 16 KiB input buffer
    # with several read(2) calls; the k-th of them fails once with EIO.  Every k, gzip / bzip2 / xz, tools with different readers.
    import gzip as _gz, bz2 as _bz2, lzma as _lz
    plain = b"".join(b"line %d of a text that is long enough to need several buffer fills\n" % (i * 7919 % 10007) for i in range(4000))
    packed = {"gzip": _gz.compress(plain, 1), "bzip2": _bz2.compress(plain, 1), "xz": _lz.compress(plain, preset=0)}
    fired_f = 0
    for codec, blob in packed.items():
        for tool, args in (("order_independent_hash", []), ("remove_long_lines", ["1000"]), ("dedupe", [])):
            ks = list(range(1, 12)) + [15, 20, 30, 45] if ctx.tier == "quick" else list(range(1, 80))
            for k in ks:
                rep = os.path.join(ctx.tmp, "rep_f.txt")
                if os.path.exists(rep):
                    os.unlink(rep)
                e = pvlib.san_env({"LD_PRELOAD": shim, "PV_FAULTS": f"r{k}=e5", "PV_FAULT_REPORT": rep, "PV_FAULT_FDS": "0",
                                   "PV_FAULT_RANDOM": f"{ctx.seed}:100:0", "PV_FAULT_MAXSHORT": "1500"})
                e["ASAN_OPTIONS"] += ":verify_asan_link_order=0"
                st, out, err = pvlib.run_tool([ctx.bin(tool)] + args, blob, env=e, timeout=60)
                did = os.path.exists(rep) and "rule=1" in open(rep).read()
                if not did:
                    break               # fewer than k reads
                fired_f += 1
                ctx.count("compressed-stdin-read-fault", 1, [(codec, tool, k)])
                if not nonzero(st):
                    pvlib.report_violation(ctx, f"zread-fault:{codec}:{tool}:{k}", {
                        "argv": [tool] + args, "stdin": f"{codec} of {len(plain)} bytes of text, delivered at most 1500 bytes per read(2)", "env": {"PV_FAULTS": f"r{k}=e5", "PV_FAULT_FDS": "0",
                        "PV_FAULT_RANDOM": f"{ctx.seed}:100:0", "PV_FAULT_MAXSHORT": "1500"}, "status": st, "stdout_bytes": len(out), "stderr": err.decode(errors="replace")[-300:]},
                        summary=f"{tool} reading {codec} input in pieces of at most 1500 bytes: read(2) number {k} of stdin failed with EIO and the tool "
                                f"{'hung' if st == 'HANG' else 'exited 0'} ({len(out)} bytes of output)")
                    break
            else:
                continue
            if ctx.violations:
                break
        if ctx.violations:
            break
    ctx.cov["compressed_stdin_faults_fired"] = fired_f

    # ---- (g) close(2) of the OUTPUT failing (where NFS, quota and thin-provisioned file systems report deferred write errors): every tool
    # that writes its stdout through util::FileStream closes descriptor 1 itself and checks the result (observed on the pinned tree for the
    # fourteen tools below).  The first close of fd 1 is made to fail with ENOSPC: the tool must exit non-zero - and it must get there: a
    # tool that no longer closes its output can never report such an error.
    text_ = b"a\tb\tc\td\te\tf\nline two\n"
    b64_ = base64.b64encode(b"doc\n") + b"\n"
    subf = os.path.join(ctx.tmp, "sub_g.txt")
    open(subf, "wb").write(b"nothing\n")
    closers = [("dedupe", [], text_), ("remove_long_lines", ["100"], text_), ("cache", ["cat"], text_), ("foldfilter", ["cat"], text_), ("b64filter", ["cat"], b64_),
               ("vocab", [], text_), ("remove_invalid_utf8", [], text_), ("docenc", [], text_), ("base64_number", [], b64_), ("commoncrawl_dedupe", [], text_),
               ("subtract_lines", [subf], text_), ("simple_cleaning", [], text_), ("idf", [], text_), ("warc_parallel", ["cat"], b"WARC/1.0\r\nContent-Length: 2\r\n\r\nab\r\n\r\n")]
    for tool, args, stdin in closers:
        rep = os.path.join(ctx.tmp, "rep_g.txt")
        if os.path.exists(rep):
            os.unlink(rep)
        e = pvlib.san_env({"LD_PRELOAD": shim, "PV_FAULTS": "c1=e28", "PV_FAULT_FDS": "1", "PV_FAULT_REPORT": rep, "PV_DELAY_ONLY": tool})
        e["ASAN_OPTIONS"] += ":verify_asan_link_order=0"
        st, out, err = pvlib.run_tool([ctx.bin(tool)] + args, stdin, env=e, timeout=60)
        fired_ = os.path.exists(rep) and "rule=1" in open(rep).read()
        ctx.count("close-of-stdout-fails", 1, [tool])
        if not fired_ or not nonzero(st):
            pvlib.report_violation(ctx, f"close-stdout:{tool}", {"argv": [tool] + [os.path.basename(a_) if a_.startswith("/") else a_ for a_ in args], "stdin_hex": hx(stdin),
                                   "env": {"LD_PRELOAD": "harness/faults_preload.so", "PV_FAULTS": "c1=e28", "PV_FAULT_FDS": "1"}, "status": st, "close_of_fd_1_attempted": fired_,
                                   "stderr": err.decode(errors="replace")[-300:]},
                                   summary=(f"{tool}: close(2) of its stdout failed with ENOSPC and the tool exited {st}" if fired_ else
                                            f"{tool} never closes its stdout (exit status {st}): an error that the file system reports at close cannot make it fail"))
            break


def search(ctx, broken):
    pass   # run() already enumerates child deaths and failing calls; nothing wider to try


def replay(ctx, rp):
    env = pvlib.san_env(rp.get("env", {}))
    if "env" in rp:
        env["LD_PRELOAD"] = os.path.join(ctx.bdir, "harness", "faults_preload.so")
        env["ASAN_OPTIONS"] += ":verify_asan_link_order=0"
    argv = [a if a != "harness/children/child.py" and a != "child.py" else CHILD for a in rp["argv"]]
    argv = [sys.executable if a == "python3" else a for a in argv]
    if rp.get("stdout") == "/dev/full":
        import subprocess
        with open("/dev/full", "wb") as full:
            p = subprocess.run([ctx.bin(argv[0])] + argv[1:], input=pvlib.unhx(rp["stdin_hex"]), stdout=full, stderr=subprocess.PIPE, env=env, timeout=30)
        print("status with stdout=/dev/full:", p.returncode, p.stderr[-300:])
        return
    st, out, err = pvlib.run_tool([ctx.bin(argv[0])] + argv[1:], pvlib.unhx(rp["stdin_hex"]), env=env, timeout=30)
    print("status", st, "stdout bytes", len(out), err[-400:])
